"""C18 - analyses are independent of what was analysed before in the same process."""
import ast
import json

from .. import pm
from ..effects import Effects
from ..pm import U
from ..report import VERIF
from . import common as C

TECHNIQUE = "static analysis: shared-state inventory from the AST; inter-procedural aliasing-depth (ownership/effects) analysis with function summaries over the name-resolved call graph: no in-place mutator may be applied to model storage, default-argument objects, class attributes or module globals on a path from an analysis entry point; who-may-write check for process-global state of imported libraries and the interpreter"
EXPLANATION = (
    "R1: all process-wide mutable state (module globals and class attributes holding mutable objects, singletons, memoised functions, mutable default arguments) is enumerated from the source and compared with the reviewed list spec/shared_state.json. R2: an aliasing-depth analysis (0 = the object itself is shared storage; attribute/subscript/iteration descend, copy idioms and deepcopy ascend; function summaries for returned labels and mutated parameters, computed for arguments that are shared themselves and for fresh containers whose elements / elements' elements are shared; the return value of a function under functools.lru_cache/cache is shared storage unless it is certainly immutable; field-based for attributes stored outside constructors) finds every in-place mutator (+= on a possibly-mutable value, append/extend/insert/remove/pop/sort/reverse/update/setdefault, item/attribute store, del) applied to a depth-0 value in any function reachable from the analysis entry points; the loader's building branch, the cache insert and the AArch64 write-back flag stores are declared exceptions, the last one conditional on a data fact re-checked on every run. R3: no attribute store on a parser singleton outside __init__/construct_parser. R4: no call of a process-global setter (pyparsing ParserElement defaults/packrat, sys/os/locale/warnings/random/yaml registries; table GLOBAL_SETTERS) and no attribute/item store or in-place edit whose receiver is an imported non-osaca module or a class reached from it by attributes only (pp.ParserElement.X = .., os.environ[..] = .., sys.path.insert(..)) anywhere in the package: such state outlives the analysis and, written from lazily executed code, applies only to what is built afterwards."
)
NOT_DECIDED = "Equality of reports across call sequences and with fresh-process runs (behavioural)."
ASSUMPTIONS = [
    "callees are resolved by receiver type where inferable, else by method name (over-approximation); "
    "monkey-patching, getattr tricks and exec of non-ISA code do not occur (absence checked)",
    "numeric/string fields named in effects.IMMUTABLE_FIELDS hold immutable values (validated on the data by C15-D1)",
    "modules under osaca/data/ are build-time tooling and are not imported by the package (checked by R1)",
]

ROOTS = [
    "osaca.inspect", "osaca.get_asm_parser",
    "ArchSemantics.__init__", "ArchSemantics.add_semantics", "ArchSemantics.assign_optimal_throughput",
    "ArchSemantics.assign_tp_lt", "ISASemantics.assign_src_dst", "ISASemantics.process",
    "KernelDG.__init__", "KernelDG.get_critical_path", "KernelDG.get_loopcarried_dependencies",
    "KernelDG.export_graph", "KernelDG.get_dependent_instruction_forms",
    "Frontend.__init__", "Frontend.full_analysis", "Frontend.full_analysis_dict",
    "Frontend.throughput_analysis", "Frontend.latency_analysis", "Frontend.loopcarried_dependencies",
    "Frontend.combined_view",
    "BaseParser.parse_file", "ParserX86ATT.parse_line", "ParserAArch64.parse_line",
    "marker_utils.reduce_to_section", "marker_utils.find_basic_blocks",
    "marker_utils.find_basic_loop_bodies", "marker_utils.find_jump_labels",
    "MachineModel.__init__", "MachineModel.get_instruction",
]

_effects_cache = {}


def effects_of(ctx):
    k = ctx.repo.digest.hexdigest()
    if k not in _effects_cache:
        _effects_cache[k] = Effects(ctx.repo)
    return _effects_cache[k]


def builder_branch(init):
    """The statements of MachineModel.__init__ that build self._data from the YAML (the branch
    taken when no cache hit occurred)."""
    for n in ast.walk(init.node):
        if isinstance(n, ast.If) and isinstance(n.test, ast.Name) and n.orelse:
            # if cached: self._data = cached  else: <build>
            if any(U(s) == "self._data = %s" % n.test.id for s in n.body):
                return n.orelse
    return None


def aarch64_hidden_memory_operands(ctx):
    out = []
    for path, d in ctx.data.isas().items():
        if not isinstance(d, dict) or str(d.get("isa", "")).lower() != "aarch64":
            continue
        for e in d.get("instruction_forms") or []:
            for h in (e.get("hidden_operands") or []) if isinstance(e, dict) else []:
                if isinstance(h, dict) and h.get("class") == "memory":
                    out.append(str(e.get("name")))
    return out


def mutation_findings(ctx, eff, rule, only_funcs=None):
    """R2 proper. Returns number of sinks examined."""
    reach = eff.reachable_from([r for r in ROOTS if r in eff.summ])
    missing = [r for r in ROOTS if r not in eff.summ]
    if len(missing) > 6:
        ctx.broken("%s: %d of the analysis entry points no longer exist: %s" % (rule, len(missing), missing))
    ctx.extra["reachable_functions"] = len(reach)
    ctx.extra["entry_points"] = [r for r in ROOTS if r in eff.summ]
    init = ctx.repo.func("MachineModel.__init__")
    build = builder_branch(init)
    if build is None:
        ctx.broken("%s: MachineModel.__init__ no longer has the `if cached: ... else: <build>` shape" % rule)
    build_ids = {id(n) for st in build for n in ast.walk(st)}
    hidden_mem = aarch64_hidden_memory_operands(ctx)
    n_sinks = 0
    for f in eff.funcs:
        if f.qname not in reach:
            continue
        if only_funcs is not None and f.qname not in only_funcs:
            continue
        ctx.touch(f)
        for node, lab, what in eff.summ[f.qname].sinks:
            n_sinks += 1
            kind = lab.origin.split(" ")[0]
            if kind == "MODELSTATE" and isinstance(node, ast.Assign) and len(node.targets) == 1 and isinstance(node.targets[0], ast.Subscript) \
                    and isinstance(node.targets[0].value, ast.Attribute) and U(node.targets[0].value.value) == "self":
                # filing a value in a table the model keeps (memoisation) edits no object anybody else holds; what matters is
                # whether the filed object is handed out and edited later - those edits are sinks of their own
                ctx.ok(rule, "entry filed in model-lifetime table: %s" % what[:80], f.where(node))
                continue
            # ---- declared exceptions (one symbol, one reason each)
            if f.qname == "MachineModel.__init__":
                if id(node) in build_ids:
                    ctx.ok(rule, "loader builds its own data: %s" % what[:80], f.where(node),
                           "inside the building branch (no cache hit): the data is not yet published")
                    continue
                if pm.match("MachineModel._runtime_cache[M_k] = self._data", node) is not None:
                    ctx.ok(rule, "declared exception: cache insert %s" % U(node), f.where(node))
                    continue
            if f.qname == "ISASemantics.assign_src_dst" and isinstance(node, ast.Assign) and any(
                    isinstance(t, ast.Attribute) and t.attr in ("pre_indexed", "post_indexed") for t in node.targets):
                guarded = any(pol and U(e) == "self._isa == 'aarch64'" for e, pol in C.facts_at(node))
                if guarded and not hidden_mem:
                    ctx.ok(rule, "declared exception: AArch64 write-back flags on %s" % U(node.targets[0]),
                           f.where(node), "the flagged base register belongs to a memory operand of the role "
                           "lists; hidden (model-owned) operands of the AArch64 ISA DB are never memory operands "
                           "(re-checked on this run: 0 found), so only the analysed instruction's own operand "
                           "objects are written")
                    continue
                if guarded and hidden_mem:
                    ctx.node_bad(rule, f, node, "write-back flag store may hit a model-owned hidden memory "
                                 "operand: the AArch64 ISA DB now has hidden memory operands (%s)" % hidden_mem[:3])
                    continue
            ctx.bad(rule, "%s in %s" % (what, f.qname), f.where(node),
                    "in-place mutation of shared storage on an analysis path: %s; the mutated object is %s "
                    "(aliasing depth 0), so the change persists into every later analysis of this process"
                    % (what, lab.origin), f.qname, U(node), f.module.excerpt(node))
    return n_sinks


def run(ctx):
    eff = effects_of(ctx)
    # ------------------------------------------------------------------ R1 inventory
    ctx.rule("R1", "process-wide mutable state enumerated from the source = reviewed inventory")
    spec = json.loads((VERIF / "spec" / "shared_state.json").read_text())["items"]
    inv = eff.inventory()
    pkg_inv = []
    for kind, name in inv:
        qual = name.split("(")[0]
        f = ctx.repo.funcs.get(qual)
        tooling = False
        if f is not None and f.file.startswith(Effects.TOOLING_PREFIX):
            tooling = True
        if kind == "module-global":
            stem = name.split(".")[0]
            m = [m for m in ctx.repo.modules.values() if m.stem == stem]
            tooling = bool(m) and all(x.rel.startswith(Effects.TOOLING_PREFIX) for x in m)
        if not tooling:
            pkg_inv.append("%s %s" % (kind, name))
    ctx.floor("R1", "shared-state items in the package", len(pkg_inv), 12)
    for item in pkg_inv:
        if item in spec:
            ctx.ok("R1", item, "", spec[item])
        else:
            ctx.note("R1: process-wide mutable state not in the reviewed inventory: %s (R2 decides whether it "
                     "is mutated on an analysis path)" % item)
            ctx.ok("R1", "unreviewed item (decided by R2): " + item, "")
    # tooling modules are not imported by the package
    imported = []
    for m in ctx.repo.modules.values():
        if m.rel.startswith(Effects.TOOLING_PREFIX):
            continue
        for n in ast.walk(m.tree):
            if isinstance(n, ast.ImportFrom) and n.module and "osaca.data" in n.module:
                imported.append((m.rel, n.module))
            if isinstance(n, ast.Import):
                for a in n.names:
                    if a.name.startswith("osaca.data"):
                        imported.append((m.rel, a.name))
    ctx.check(not imported, "R1", "osaca/data/*.py tooling is not imported by the package", "",
              "package modules import build-time tooling: %s" % imported, "osaca", "tooling imports")
    # dynamic features that would defeat the analysis
    dyn = []
    for f in eff.funcs:
        for n in ast.walk(f.node):
            if isinstance(n, ast.Call) and isinstance(n.func, ast.Name) and n.func.id in (
                    "exec", "eval", "setattr", "globals", "__import__"):
                dyn.append((f.qname, n.func.id, f.where(n)))
    allowed = {("ISASemantics.get_reg_changes", "exec")}
    for q, name, where in dyn:
        if (q, name) in allowed:
            ctx.ok("R1", "dynamic feature %s in %s (ISA operation snippets, linted by C06-D1)" % (name, q), where)
        else:
            ctx.bad("R1", "dynamic feature %s in %s" % (name, q), where,
                    "%s() in %s defeats the ownership analysis (and can rebind shared state)" % (name, q), q,
                    "%s call" % name)
    # ------------------------------------------------------------------ R2 mutations
    ctx.rule("R2", "no in-place mutation of model storage / default-argument objects / class attributes / "
             "module globals on a path from an analysis entry point")
    n = mutation_findings(ctx, eff, "R2")
    ctx.extra["sinks_examined"] = n
    ctx.extra["fixpoint_rounds"] = eff.rounds
    ctx.extra["field_labels"] = {k: repr(v) for k, v in eff.field.items() if v.d < 99}
    # positive control: the analysis must see the model accessors as shared
    for q, want in (("MachineModel.get_instruction", 0), ("MachineModel.get_load_throughput", 1),
                    ("MachineModel.get_store_throughput", 1), ("MachineModel.__getitem__", 0)):
        s = eff.summ.get(q)
        if s is None:
            ctx.broken("R2: model accessor %s not found" % q)
        ctx.check(s.ret.d == want, "R2", "summary: %s returns aliasing depth %d" % (q, want),
                  ctx.repo.func(q).where(),
                  "%s now returns aliasing depth %s (was %d): callers' copy discipline must be re-checked"
                  % (q, s.ret.d if s.ret.d < 99 else "fresh", want), q, "summary of " + q) if s.ret.d <= want else \
            ctx.ok("R2", "summary: %s returns a fresher value (depth %s) than before (%d)" % (
                q, s.ret.d if s.ret.d < 99 else "fresh", want), ctx.repo.func(q).where())
    # ------------------------------------------------------------------ R3 singletons
    ctx.rule("R3", "parser singletons carry no per-analysis state")
    allowed_methods = {"__init__", "construct_parser", "__new__"}
    # helpers of the construction: methods of the parser classes whose every call site in the package lies in a
    # construction-time method (fixpoint); a reference that is not a call (bound method handed around) disqualifies
    parser_methods = {}
    for cname in ("BaseParser", "ParserX86ATT", "ParserAArch64"):
        for mname, f in ctx.repo.cls(cname).methods.items():
            parser_methods.setdefault(mname, []).append(f)
    uses = {}
    for g in ctx.repo.all_funcs():
        called = {id(c.func) for c in ast.walk(g.node) if isinstance(c, ast.Call)}
        for a in ast.walk(g.node):
            if isinstance(a, ast.Attribute) and a.attr in parser_methods and isinstance(a.ctx, ast.Load):
                uses.setdefault(a.attr, []).append((g, id(a) in called))
    for caller_q, helper_q in getattr(ctx.repo, "inlined", []):
        # call sites the expansion of new helpers (E12) removed
        hm = helper_q.split(".")[-1]
        if hm in parser_methods and any(m.qname == helper_q for m in parser_methods[hm]):
            try:
                uses.setdefault(hm, []).append((ctx.repo.func(caller_q), True))
            except Exception:
                pass
    changed = True
    while changed:
        changed = False
        for mname in parser_methods:
            if mname in allowed_methods or mname.startswith("__") or not uses.get(mname):
                continue
            pq = {m.qname for ms in parser_methods.values() for m in ms}
            if all(is_call and g.name in allowed_methods and g.qname in pq for g, is_call in uses[mname]):
                allowed_methods.add(mname)
                changed = True
    count = 0
    for cname in ("BaseParser", "ParserX86ATT", "ParserAArch64"):
        c = ctx.repo.cls(cname)
        for mname, f in c.methods.items():
            for node in ast.walk(f.node):
                tgts = []
                if isinstance(node, ast.Assign):
                    tgts = node.targets
                elif isinstance(node, (ast.AugAssign, ast.AnnAssign)):
                    tgts = [node.target]
                for t in tgts:
                    if isinstance(t, ast.Attribute) and isinstance(t.value, ast.Name) and t.value.id in ("self", "cls"):
                        count += 1
                        if mname in allowed_methods:
                            ctx.ok("R3", "%s.%s sets self.%s (construction time)" % (cname, mname, t.attr), f.where(node))
                        else:
                            ctx.node_bad("R3", f, node, "%s.%s stores self.%s: the parser is a process-wide "
                                         "singleton, state written while parsing leaks into the next analysis"
                                         % (cname, mname, t.attr))
    ctx.floor("R3", "attribute stores on parser objects", count, 10)
    for cname in ("ParserX86ATT", "ParserAArch64"):
        nw = ctx.repo.cls(cname).methods.get("__new__")
        if nw is not None:
            # every store into cls._instance happens only while no instance exists yet (guard on cls._instance or a copy of it)
            stores = [n for n in ast.walk(nw.node) if isinstance(n, ast.Assign) and any(U(t) == "cls._instance" for t in n.targets)]
            aliases = {"cls._instance"} | {a.targets[0].id for a in ast.walk(nw.node) if isinstance(a, ast.Assign)
                                           and isinstance(a.targets[0], ast.Name) and U(a.value) == "cls._instance"}
            def guarded(n):
                for e, pol in C.facts_at(n):
                    t = C.is_none_test(e)
                    if t is not None and t[0] in aliases and t[1] == pol:
                        return True
                    if (not pol) and U(e) in aliases:
                        return True
                return False
            ctx.judge(bool(stores) and all(guarded(n) for n in stores), bool(stores), "R3", "%s.__new__ creates the instance once" % cname,
                      nw.where(), "the singleton instance is (re)created although one may already exist", nw.qname, "__new__")
    # ------------------------------------------------------------------ R4 library / interpreter state
    ctx.rule("R4", "no process-global state of an imported library or of the interpreter is written by the package")
    n_calls = library_state_findings(ctx, "R4")
    ctx.extra["module_rooted_calls_examined"] = n_calls


# process-global setters of the libraries the package imports and of the standard library: (root module, trailing name)
GLOBAL_SETTERS = {
    # pyparsing: defaults consulted when grammar elements are CREATED (parsers here are lazily built singletons)
    "setDefaultWhitespaceChars", "set_default_whitespace_chars", "setDefaultKeywordChars", "set_default_keyword_chars",
    "inlineLiteralsUsing", "inline_literals_using",
    # interpreter / standard library state that can change what an analysis computes or prints
    "setrecursionlimit", "setlocale", "seed", "chdir", "set_start_method",
    # ruamel.yaml / yaml class-level registries used by every later dump or load
    "add_representer", "add_constructor", "add_implicit_resolver",
}
# deliberately not listed (process-global, but without influence on a report): pyparsing packrat / left-recursion
# switches (memoisation only), warnings filters and logging configuration (stderr only), umask, socket timeouts


def _bracketed(m, store):
    """`saved = L; L = new; try: ... finally: L = saved`: is `store` the setting or the restoring store of such a bracket?
    The saved local is assigned once (from L, before the setting store, in the same block) and never stored otherwise; the
    try statement directly follows the setting store; the restoring store is a top-level statement of its finally."""
    L = U(store.targets[0])
    fns = [f for f in ast.walk(m.tree) if isinstance(f, (ast.FunctionDef, ast.AsyncFunctionDef)) and any(x is store for x in ast.walk(f))]
    if not fns:
        return False
    fn = min(fns, key=lambda f: sum(1 for _ in ast.walk(f)))
    for blk_owner in ast.walk(fn):
        for fld in ("body", "orelse", "finalbody"):
            blk = getattr(blk_owner, fld, None)
            if not isinstance(blk, list):
                continue
            for i, st in enumerate(blk):
                if not (isinstance(st, ast.Try) and st.finalbody and i >= 2):
                    continue
                setting, saving = blk[i - 1], None
                if not (isinstance(setting, ast.Assign) and len(setting.targets) == 1 and U(setting.targets[0]) == L):
                    continue
                for prev in blk[:i - 1]:
                    if isinstance(prev, ast.Assign) and len(prev.targets) == 1 and isinstance(prev.targets[0], ast.Name) and U(prev.value) == L:
                        saving = prev
                if saving is None:
                    continue
                nm = saving.targets[0].id
                stores = [x for x in ast.walk(fn) if isinstance(x, ast.Name) and x.id == nm and isinstance(x.ctx, (ast.Store, ast.Del))]
                other_L = [x for x in blk[blk.index(saving) + 1:i - 1] for y in ast.walk(x)
                           if isinstance(y, (ast.Attribute, ast.Subscript)) and isinstance(y.ctx, ast.Store) and U(y) == L]
                restores = [x for x in st.finalbody if isinstance(x, ast.Assign) and len(x.targets) == 1 and U(x.targets[0]) == L
                            and isinstance(x.value, ast.Name) and x.value.id == nm]
                if len(stores) == 1 and not other_L and restores and (store is setting or any(store is r for r in restores)):
                    return True
    return False


def library_state_findings(ctx, rule):
    """Calls and stores whose receiver is an imported (non-osaca) module or a class reached from it by attributes only:
    `pp.ParserElement.setDefaultWhitespaceChars(..)`, `sys.setrecursionlimit(..)`, `os.environ[..] = ..`, `pp.X.attr = ..`,
    `sys.path.insert(..)`. Such state outlives the analysis that wrote it and - when the write sits in lazily executed
    code like a singleton's constructor - makes later results depend on what ran before."""
    n = 0
    for m in ctx.repo.modules.values():
        if m.rel.startswith(Effects.TOOLING_PREFIX):
            continue
        ext = {}        # local alias -> external module / imported external name
        for s in ast.walk(m.tree):
            if isinstance(s, ast.Import):
                for a in s.names:
                    if not a.name.startswith("osaca"):
                        ext[(a.asname or a.name).split(".")[0]] = a.name
            elif isinstance(s, ast.ImportFrom) and s.level == 0 and s.module and not s.module.startswith("osaca"):
                for a in s.names:
                    ext[a.asname or a.name] = "%s.%s" % (s.module, a.name)

        def chain(e):
            """(root alias, [attrs]) when e is Name(.attr)* rooted at an external import, else None"""
            attrs = []
            while isinstance(e, ast.Attribute):
                attrs.append(e.attr)
                e = e.value
            if isinstance(e, ast.Name) and e.id in ext:
                return e.id, attrs[::-1]
            return None

        mfuncs = [f for f in ctx.repo.all_funcs() if f.module is m]

        def where(node):
            inside = [f for f in mfuncs if any(x is node for x in ast.walk(f.node))]
            f = min(inside, key=lambda f: sum(1 for _ in ast.walk(f.node))) if inside else None
            return "%s:%d" % (m.rel, node.lineno), (f.qname if f is not None else m.stem)

        shadow = {n_.id for n_ in ast.walk(m.tree) if isinstance(n_, ast.Name) and isinstance(n_.ctx, ast.Store)}
        for node in ast.walk(m.tree):
            if isinstance(node, ast.Call):
                c = chain(node.func)
                if c is None or not c[1] or c[0] in shadow:
                    continue
                n += 1
                root, attrs = c
                if attrs[-1] in GLOBAL_SETTERS:
                    w, q = where(node)
                    ctx.bad(rule, "%s in %s" % (U(node.func), q), w,
                            "`%s(...)` writes process-global state of %s: it stays in force for every later analysis of the "
                            "process and - executed lazily (singleton construction, first use) - only for what is built AFTER it, "
                            "so a report depends on which analyses ran before" % (U(node.func), ext[root]), q, U(node)[:120],
                            m.excerpt(node))
                elif len(attrs) >= 2 and attrs[-1] in MUTATORS_ON_MODULE_STATE and attrs[-2] in ("path", "environ", "modules", "argv", "meta_path", "filters"):
                    w, q = where(node)
                    ctx.bad(rule, "%s in %s" % (U(node.func), q), w,
                            "`%s(...)` edits %s.%s, interpreter-wide state" % (U(node.func), ext[root], attrs[-2]), q,
                            U(node)[:120], m.excerpt(node))
            tgts = []
            if isinstance(node, ast.Assign):
                tgts = node.targets
            elif isinstance(node, (ast.AugAssign, ast.AnnAssign)):
                tgts = [node.target]
            elif isinstance(node, ast.Delete):
                tgts = node.targets
            for t in tgts:
                base = t.value if isinstance(t, ast.Subscript) else t
                c = chain(base)
                if c is None or c[0] in shadow:
                    continue
                if isinstance(t, ast.Attribute) or (isinstance(t, ast.Subscript) and c[1]):
                    n += 1
                    w, q = where(node)
                    if isinstance(node, ast.Assign) and len(node.targets) == 1 and _bracketed(m, node):
                        ctx.ok(rule, "store %s in %s: set for the duration of a try block and put back in its finally" % (U(t), q), w)
                        continue
                    ctx.bad(rule, "store %s in %s" % (U(t), q), w,
                            "`%s` is a store into state owned by the imported %s: it is shared by everything in the process "
                            "that uses the library" % (U(t)[:80], ext[c[0]]), q, U(node)[:120], m.excerpt(node))
    ctx.floor(rule, "calls on imported modules / their classes examined", n, 100)
    ctx.ok(rule, "%d calls / stores on imported modules and their classes examined" % n, "")
    return n


MUTATORS_ON_MODULE_STATE = {"append", "insert", "extend", "remove", "pop", "clear", "update", "setdefault", "sort", "reverse"}
