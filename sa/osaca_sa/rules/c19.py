"""C19 - LCD timeout yields sound partial results and leaves no workers behind."""
import ast

from .. import pm, report
from ..cfg import EXIT
from ..pm import U
from . import common as C
from .c18 import effects_of

TECHNIQUE = "static analysis: flag placement by CFG (set exactly on the time-out paths), start/join/kill pairing on every exit of the manager block, copy-before-teardown ordering, write-set (isolation) of the search functions via attribute-store inventory and the ownership analysis, deadline coverage of every path-enumeration site reachable from the search"
EXPLANATION = (
    "R1: every clock read in the search is resolved (time.X directly, through `from time import`, a local/module alias or a staticmethod class attribute) and must be a wall clock (time/monotonic/perf_counter); a CPU clock of the polling parent never expires. timed_out is initialised false before the search and set true only on a path where the search was cut short (the polling loop's exhaustion branch; the sequential deadline test); every early exit from a search loop is such a path. R2: timed_out is what both outputs receive as lcd_warning and what the footer / LCDWarning are keyed on. R3: every started worker is joined on every exit of the manager block; on the time-out path a live worker is killed with an uncatchable signal (os.kill(pid, SIGKILL) or Process.kill(); terminate() = SIGTERM can be caught or ignored through inherited handlers) before it is joined. R4: the shared list is copied inside the manager block, after the joins. R5: the search writes only locals, self.timed_out and copies - not self.dg, not the kernel's instruction forms (throughput and critical path cannot be affected). R6: every path-enumeration site reachable from check_for_loopcarried_dep is under the time-out's control: run in a worker the parent polls and kills, or consumed by a loop that tests the deadline in every iteration (skipped only for timeout == -1) AND confined to the nodes lying on a source->target path of the acyclic doubled graph, so that every branch of the enumeration ends in a path and the generator cannot search for long without yielding (the deadline is only tested when it yields). Partial results pass through the same post-processing as complete ones (C05-R4..R6)."
)
NOT_DECIDED = "Wall-clock bounds, the kill timing relative to the workers' progress, and the process table after return."
ASSUMPTIONS = ["os.kill(pid, SIGKILL) followed by join() reaps the worker", "one step of networkx's all_simple_paths generator is bounded by the graph size"]

FN = "KernelDG.check_for_loopcarried_dep"


WALL_CLOCKS = ("time", "monotonic", "perf_counter", "time_ns", "monotonic_ns", "perf_counter_ns")
CPU_CLOCKS = ("process_time", "thread_time", "process_time_ns", "thread_time_ns", "clock")


def _clock_of_ref(ctx, f, e, depth=0):
    """Name of the time-module function a callee expression denotes (through class attributes, local and module aliases,
    `from time import x`), else None."""
    if depth > 3:
        return None
    if isinstance(e, ast.Call) and isinstance(e.func, ast.Name) and e.func.id == "staticmethod" and len(e.args) == 1:
        return _clock_of_ref(ctx, f, e.args[0], depth + 1)
    if isinstance(e, ast.Attribute) and isinstance(e.value, ast.Name):
        if e.value.id == "time" and e.attr in WALL_CLOCKS + CPU_CLOCKS:
            return e.attr
        if e.value.id in ("self", "cls") or e.value.id in ctx.repo.classes:
            cname = f.cls.name if e.value.id in ("self", "cls") and f.cls is not None else e.value.id
            for c in ctx.repo.mro(cname):
                v = ctx.repo.classes[c].class_attrs.get(e.attr)
                if v is not None:
                    return _clock_of_ref(ctx, f, v, depth + 1)
        return None
    if isinstance(e, ast.Name):
        loc = [a for a in C.assigns_to(f.node, e.id) if isinstance(a, ast.Assign)]
        if len(loc) == 1:
            return _clock_of_ref(ctx, f, loc[0].value, depth + 1)
        g = f.module.globals.get(e.id)
        if g is not None:
            return _clock_of_ref(ctx, f, g, depth + 1)
        for n in f.module.tree.body:
            if isinstance(n, ast.ImportFrom) and n.module == "time":
                for al in n.names:
                    if (al.asname or al.name) == e.id and al.name in WALL_CLOCKS + CPU_CLOCKS:
                        return al.name
    return None


def _normalise_clocks(ctx, f):
    """Every clock read in f, resolved; each is rewritten in place to the canonical `time.time()` so that the rules below do
    not depend on which (wall) clock or which alias is used. Returns [(line, original text, time-module function)]."""
    out = []
    for n in list(ast.walk(f.node)):
        if isinstance(n, ast.Call) and not n.args and not n.keywords:
            k = _clock_of_ref(ctx, f, n.func)
            if k is None:
                continue
            out.append((n.lineno, U(n), k))
            new = ast.Attribute(value=ast.Name(id="time", ctx=ast.Load()), attr="time", ctx=ast.Load())
            ast.copy_location(new, n.func)
            ast.copy_location(new.value, n.func)
            new._parent = n
            new.value._parent = new
            n.func = new
    return out




def run(ctx):
    C.require_locals(ctx, ctx.func('KernelDG.check_for_loopcarried_dep'), ['timeout', 'all_paths', 'dg'])
    C.require_locals(ctx, ctx.func('KernelDG.__init__'), ['timeout'])
    C.require_locals(ctx, ctx.func('osaca.inspect'), ['args'])
    f = ctx.func(FN)
    init = ctx.func("KernelDG.__init__")
    ext = ctx.func("KernelDG._extend_path")
    clocks = _normalise_clocks(ctx, f)
    cfg = C.cfg_of(f)
    tmo = "timeout"
    if tmo not in f.params():
        ctx.broken("check_for_loopcarried_dep has no timeout parameter")
    # ------------------------------------------------------------------ R1
    ctx.rule("R1", "timed_out: false before the search, true exactly where the search is cut short")
    ini = pm.find("self.timed_out = False", init.node)
    call = C.calls_to(init.node, "check_for_loopcarried_dep")
    icfg = C.cfg_of(init)
    ctx.check(len(ini) == 1 and len(call) == 1 and icfg.dominates(ini[0][0], call[0]), "R1",
              "timed_out = False before the search starts", init.where(), "timed_out is not reset before the search",
              init.qname, "flag init")
    ti = C.param_index(f, tmo)
    ctx.check(len(call) == 1 and C.arg_of(call[0], ti, tmo) is not None and U(C.arg_of(call[0], ti, tmo)) == "timeout", "R1",
              "the constructor's timeout reaches the search", init.where(), "timeout is not passed to the search", init.qname,
              "timeout threading")
    ctx.floor("R1", "clock reads in the search", len(clocks), 2)
    for ln, txt, k in clocks:
        ctx.check(k in WALL_CLOCKS, "R1", "the deadline is measured on a wall clock: %s -> time.%s" % (txt, k), "%s:%d" % (f.file, ln),
                  "the search budget is measured with time.%s (via `%s`), the CPU time of the calling process: while the parent "
                  "sleeps and polls its workers that clock stands still, so the time-out never expires and the analysis "
                  "blocks until the exponential search ends" % (k, txt), f.qname, "clock %s" % txt)
    sets = [n for n, _ in pm.find("self.timed_out = True", f.node)]
    others = [n for n in ast.walk(f.node) if isinstance(n, ast.Assign) and U(n.targets[0]) == "self.timed_out" and n not in sets]
    for n in others:
        ctx.node_bad("R1", f, n, "timed_out is assigned something other than True inside the search")
    ctx.floor("R1", "sites setting timed_out", len(sets), 1)
    def _deadline_name(e_, at):
        """D when the comparison e_ is `clock > D` / `D < clock` and every definition of D reaching `at` is None or clock + timeout"""
        if not (isinstance(e_, ast.Compare) and len(e_.ops) == 1 and isinstance(e_.ops[0], (ast.Lt, ast.Gt, ast.LtE, ast.GtE))):
            return None
        sides = [e_.left, e_.comparators[0]]
        clock_side = [x for x in sides if any(isinstance(c_, ast.Call) and U(c_.func).startswith("time.") for c_ in ast.walk(x))]
        name_side = [x for x in sides if isinstance(x, ast.Name)]
        if len(clock_side) != 1 or len(name_side) != 1:
            return None
        later = (isinstance(e_.ops[0], (ast.Gt, ast.GtE)) and clock_side[0] is e_.left) or (
            isinstance(e_.ops[0], (ast.Lt, ast.LtE)) and clock_side[0] is e_.comparators[0])
        if not later:
            return None
        D = name_side[0].id
        try:
            ds = C.flow_of(f).reaching(at, D)
        except KeyError:
            return None

        def is_deadline_value(v):
            if isinstance(v, ast.Constant) and v.value is None:
                return True
            if isinstance(v, ast.IfExp):
                return is_deadline_value(v.body) and is_deadline_value(v.orelse)
            return isinstance(v, ast.BinOp) and isinstance(v.op, ast.Add) and tmo in pm.names_in(v) and any(
                isinstance(c_, ast.Call) and U(c_.func).startswith("time.") for c_ in ast.walk(v))
        if ds and all(d_.kind == "assign" and d_.value is not None and is_deadline_value(d_.value) for d_ in ds):
            return D
        return None

    def _is_timeout_test(test, at):
        """the test is (a conjunction of) a deadline comparison and "a time-out is in force" guards only"""
        parts = list(test.values) if isinstance(test, ast.BoolOp) and isinstance(test.op, ast.And) else [test]
        texts = [U(p_) for p_ in parts]
        old_form = any("time.time()" in t_ and tmo in t_ for t_ in texts) and all(
            ("time.time()" in t_) or t_ == "%s != -1" % tmo for t_ in texts)
        if old_form:
            return True
        ds_ = [_deadline_name(p_, at) for p_ in parts]
        names_ = [d_ for d_ in ds_ if d_]
        if len(names_) != 1:
            return False
        rest = [p_ for p_, d_ in zip(parts, ds_) if not d_]
        return all(U(r_) in ("%s is not None" % names_[0], "%s != -1" % tmo) for r_ in rest)

    polls = [w for w in ast.walk(f.node) if isinstance(w, ast.While) and ("time.time()" in U(w.test) or (
        any(isinstance(c_, ast.Call) and isinstance(c_.func, ast.Attribute) and c_.func.attr == "is_alive" for c_ in ast.walk(w))
        and any(isinstance(i_, ast.If) and _is_timeout_test(i_.test, i_) for i_ in ast.walk(w))))]
    # a polling loop that lives in a helper which cannot be expanded in place (it returns from inside the loop)
    poll_helpers = []
    if not polls:
        for c in ast.walk(f.node):
            if isinstance(c, ast.Call) and isinstance(c.func, ast.Attribute) and isinstance(c.func.value, ast.Name) and c.func.value.id == "self":
                g = ctx.repo.funcs.get("KernelDG." + c.func.attr)
                if g is not None and any(isinstance(x, ast.While) and ("time." in U(x.test) or "is_alive" in U(x)) for x in ast.walk(g.node)):
                    poll_helpers.append(g.qname)
        if poll_helpers:
            ctx.unknown("R1", "polling loop", f.where(), "the polling loop lives in %s, which returns from inside the loop and cannot be "
                        "expanded in place: the time-out path of the parallel search is not recognised" % sorted(set(poll_helpers)))
    for n in sets:
        ok = False
        why = ""
        for w in polls:
            if n in w.orelse:
                ok = True
                why = "exhaustion branch (while ... else) of the polling loop `%s`" % U(w.test)
        facts = [(U(e), p) for e, p in C.facts_at(n)]
        deadline = [t for t, p in facts if p and "time.time()" in t and ">" in t and tmo in t]
        if deadline and ("%s != -1" % tmo, True) in facts:
            ok = True
            why = "under the deadline test `%s` (and timeout != -1)" % deadline[0]
        if not ok:
            # the same with a deadline computed beforehand: `clock > D` where D is `clock + timeout` (or None when there is
            # no timeout) and D is known not to be None / the timeout is known to be in force
            nfn = C.norm_fact_nodes(n)
            for e_, p_ in nfn:
                if not (p_ and isinstance(e_, ast.Compare) and len(e_.ops) == 1 and isinstance(e_.ops[0], (ast.Lt, ast.Gt, ast.LtE, ast.GtE))):
                    continue
                sides = [e_.left, e_.comparators[0]]
                clock_side = [x for x in sides if any(isinstance(c_, ast.Call) and U(c_.func).startswith("time.") for c_ in ast.walk(x))]
                name_side = [x for x in sides if isinstance(x, ast.Name)]
                if len(clock_side) != 1 or len(name_side) != 1:
                    continue
                later = (isinstance(e_.ops[0], (ast.Gt, ast.GtE)) and clock_side[0] is e_.left) or (
                    isinstance(e_.ops[0], (ast.Lt, ast.LtE)) and clock_side[0] is e_.comparators[0])
                D = name_side[0].id
                try:
                    ds = C.flow_of(f).reaching(n, D)
                except KeyError:
                    ds = []
                def is_deadline_value(v):
                    if isinstance(v, ast.Constant) and v.value is None:
                        return True
                    if isinstance(v, ast.IfExp):
                        return is_deadline_value(v.body) and is_deadline_value(v.orelse)
                    return isinstance(v, ast.BinOp) and isinstance(v.op, ast.Add) and tmo in pm.names_in(v) and any(
                        isinstance(c_, ast.Call) and U(c_.func).startswith("time.") for c_ in ast.walk(v))
                vals_ok = bool(ds) and all(d_.kind == "assign" and d_.value is not None and is_deadline_value(d_.value) for d_ in ds)
                in_force = any((not p2) and C.is_none_test(e2) is not None and C.is_none_test(e2)[0] == D for e2, p2 in nfn
                               if isinstance(e2, ast.Compare)) or (C.CT("%s != -1" % tmo), True) in C.norm_facts(n) or (
                    C.CT("%s == -1" % tmo), False) in C.norm_facts(n)
                if later and vals_ok and in_force:
                    ok = True
                    why = "under the deadline test `%s` with %s = clock + %s" % (U(e_), D, tmo)
        if ok:
            ctx.node_ok("R1", f, n, "timed_out = True on a cut-short path: " + why)
        elif poll_helpers and any((not p) and any(h.split(".")[1] in t for h in poll_helpers) for t, p in facts):
            ctx.unknown("R1", U(n), f.where(n), "timed_out is set where %s answered False" % sorted(set(poll_helpers)))
        else:
            ctx.node_bad("R1", f, n, "timed_out is set on a path that is not a time-out (facts: %s): the warning would "
                         "be shown although the search was complete" % [t for t, p in facts if p])
    # the polling loop's normal exit must not fall into the else branch, and the test uses <= timeout
    pflow = C.flow_of(f)

    def _nobody_alive(node, stop):
        """is 'no worker is alive' among the facts at node? (directly, or through a local that holds `any(.. is_alive ..)`)"""
        for e, p in C.norm_fact_nodes(node, stop=stop):
            e2 = pflow.subst(e) if isinstance(e, ast.Name) else e
            if (not p) and "is_alive()" in U(e2):
                return True
        return False

    for w in polls:
        const_true = isinstance(w.test, ast.Constant) and w.test.value is True
        if not const_true:
            # `while <still in time>: ... else: <time-out>`: the exhaustion branch sets the flag, the test is "elapsed <= timeout"
            ctx.check(any(n in w.orelse for n in sets), "R1", "exhaustion of the polling loop sets timed_out", f.where(w),
                      "when the polling loop runs out of time (its else branch) timed_out is not set: workers are killed and "
                      "the result is partial, but no warning is shown", f.qname, "poll exhaustion sets flag")
            cmp = C.compare_parts(w.test)
            ok = cmp is not None and cmp[1] in ("LtE", "Lt") and U(cmp[2]) == tmo and "time.time() - " in U(cmp[0])
            ctx.check(ok, "R1", "polling continues while elapsed <= timeout", f.where(w), "polling condition is %s" % U(w.test),
                      f.qname, "poll condition")
        # every way out of the loop is "no worker is alive" or the time-out path (timed_out set on the way)
        brk = [b_ for b_ in ast.walk(w) if isinstance(b_, ast.Break) and C.enclosing_loop(b_) is w]
        done = [b_ for b_ in brk if _nobody_alive(b_, w)]
        timed = [b_ for b_ in brk if b_ not in done and any(C.in_subtree(s_, w) and cfg.dominates(s_, b_) for s_ in sets)]
        other = [b_ for b_ in brk if b_ not in done and b_ not in timed]
        ctx.check(bool(done) and not other and (const_true or len(brk) == 1), "R1", "the polling loop is left early only when no worker is alive", f.where(w),
                  "the polling loop breaks on another condition (the else branch - time-out - is skipped wrongly or the "
                  "search is reported complete while workers run)", f.qname, "poll break")
        if const_true:
            ctx.check(bool(timed), "R1", "exhaustion of the polling loop sets timed_out", f.where(w),
                      "the polling loop has no exit on which the time-out is recorded: it waits for the workers however long they take",
                      f.qname, "poll exhaustion sets flag")
    # early exits from search loops
    roots = [l for l in ast.walk(f.node) if isinstance(l, ast.For) and C.calls_to(l, "all_simple_paths")]
    for l in roots:
        for b in [x for x in ast.walk(l) if isinstance(x, (ast.Break, ast.Return))]:
            st_prev = None
            blk = getattr(b, "_parent", None)
            body = blk.body if hasattr(blk, "body") and b in blk.body else getattr(blk, "orelse", [])
            setter_before = any(U(s) == "self.timed_out = True" for s in body[: body.index(b)]) if b in body else False
            guarded = any(p and U(e) == "self.timed_out" for e, p in C.facts_at(b))

            def only_after_timeout(node, depth=0):
                """every way control reaches `node` comes from the setter, from the true side of a test of the flag, or from an
                exit that itself is only taken after the time-out (an inner `break` that falls out of a for/else)"""
                if depth > 4:
                    return False
                preds = list(cfg.G.predecessors(cfg.node_of(node)))
                if not preds:
                    return False
                for p_ in preds:
                    if isinstance(p_, str):
                        return False
                    if U(p_) == "self.timed_out = True":
                        continue
                    if isinstance(p_, ast.If):
                        nf_ = C.norm_facts_of_test(p_.test)
                        tside = [pol_ for t_, pol_ in nf_ if t_ == "self.timed_out"]
                        if len(nf_) == 1 and tside and cfg.node_of(node) in cfg.succ_on(p_, tside[0]) and cfg.node_of(node) not in cfg.succ_on(p_, not tside[0]):
                            continue
                        return False
                    if isinstance(p_, ast.Break):
                        blk_ = getattr(p_, "_parent", None)
                        body_ = blk_.body if hasattr(blk_, "body") and p_ in blk_.body else getattr(blk_, "orelse", [])
                        if p_ in body_ and any(U(s_) == "self.timed_out = True" for s_ in body_[: body_.index(p_)]):
                            continue
                        if only_after_timeout(p_, depth + 1):
                            continue
                        return False
                    return False
                return True
            if not (setter_before or guarded) and only_after_timeout(b):
                guarded = True
            if setter_before or guarded:
                ctx.node_ok("R1", f, b, "early exit from the search loop only after timed_out was set")
            else:
                ctx.node_bad("R1", f, b, "the search loop is left early on a path where timed_out is not set: the result "
                             "would be incomplete without the warning")
    # ------------------------------------------------------------------ R2
    ctx.rule("R2", "timed_out -> lcd_warning of both outputs -> footer text / LCDWarning")
    insp = ctx.func("osaca.inspect")
    for nm in ("full_analysis", "full_analysis_dict"):
        c = C.calls_to(insp.node, nm)
        kw = {k.arg: U(k.value) for k in c[0].keywords} if c else {}
        kg = [a for a in ast.walk(insp.node) if isinstance(a, ast.Assign) and pm.call_name(a.value) == "KernelDG"] if True else []
        gname = U(kg[0].targets[0]) if kg else "?"
        eff = C.effective_argument(insp, c[0], ctx.func("Frontend." + nm), "lcd_warning") if c else None
        ctx.check(eff == C.CT("%s.timed_out" % gname), "R2", "%s(lcd_warning=<graph>.timed_out)" % nm, insp.where(),
                  "%s receives lcd_warning=%s" % (nm, eff), insp.qname, "%s lcd_warning" % nm)
    ft = ctx.func("Frontend._user_warnings_footer")
    # the footer as a function of the flag: folded for lcd_warning = True / False (the function only concatenates constants)
    from .. import consteval
    folded = {}
    try:
        for val in (True, False):
            folded[val] = consteval.call(ft.node, None, val, globals=dict(ft.module.globals))
    except consteval.Unsupported as e:
        folded = None
        ctx.note("R2: footer not folded (%s); falling back to the textual form" % e)
    if folded is not None and all(k == "return" and isinstance(v, str) for k, v in folded.values()):
        shown = {val: "LCD analysis timed out" in folded[val][1] for val in (True, False)}
        footer_ok, footer_known = shown == {True: True, False: False}, True
    else:
        footer_ok = bool(pm.find("M_w += lcd_text if %s else ''" % ft.params()[1], ft.node)) and "LCD analysis timed out" in " ".join(
            C.str_consts(ft.node))
        footer_known = footer_ok
    ctx.judge(footer_ok, footer_known, "R2", "footer shows the time-out text iff lcd_warning", ft.where(), "footer changed", ft.qname,
        "footer text")
    kd = [c for c in ast.walk(insp.node) if isinstance(c, ast.Call) and pm.call_name(c) == "KernelDG"]
    ki = C.param_index(init, "timeout")
    ctx.check(bool(kd) and U(C.arg_of(kd[0], ki, "timeout")) == "args.lcd_timeout", "R2", "--lcd-timeout reaches KernelDG",
              insp.where(), "args.lcd_timeout is not passed as the timeout", insp.qname, "cli timeout")
    # ------------------------------------------------------------------ R3 / R4
    ctx.rule("R3", "every started worker is joined on every exit of the manager block; killed before join on time-out")
    ctx.rule("R4", "shared list is copied inside the manager block, after the joins")
    withs = [w for w in ast.walk(f.node) if isinstance(w, ast.With) and "Manager()" in U(w.items[0].context_expr)]
    if len(withs) != 1:
        ctx.broken("R3: `with Manager() as ...` block not found")
    w = withs[0]
    starts = [c for c in ast.walk(w) if isinstance(c, ast.Call) and isinstance(c.func, ast.Attribute) and c.func.attr == "start"]
    joins = [c for c in ast.walk(w) if isinstance(c, ast.Call) and isinstance(c.func, ast.Attribute) and c.func.attr == "join"]
    ctx.floor("R3", "join sites", len(joins), 1)
    if not starts:
        ctx.broken("R3: no worker is started")
    sloop = C.enclosing_loop(starts[0])
    plist = U(sloop.iter) if isinstance(sloop, ast.For) else "?"
    # every path from the start loop to the end of the with-body passes a join loop over the same list
    def covers_workers(l):
        """the loop runs over the worker list itself, or over a local that - on every path to the loop - holds all workers or
        those of them a poll has just seen alive (the others are finished and were reaped by is_alive())"""
        if U(l.iter) == plist:
            return True
        if not isinstance(l.iter, ast.Name):
            return False
        try:
            ds_ = C.flow_of(f).reaching(l, l.iter.id)
        except Exception:
            return False
        if not ds_:
            return False
        for d_ in ds_:
            v_ = getattr(d_, "value", None)
            if d_.kind != "assign" or v_ is None:
                return False
            t_ = U(v_)
            if t_ in (plist, "list(%s)" % plist, "%s[:]" % plist, "%s.copy()" % plist, "tuple(%s)" % plist):
                continue
            if isinstance(v_, (ast.ListComp, ast.GeneratorExp)) and len(v_.generators) == 1 and U(v_.generators[0].iter) == plist \
                    and U(v_.elt) == U(v_.generators[0].target) and len(v_.generators[0].ifs) == 1 \
                    and U(v_.generators[0].ifs[0]) == "%s.is_alive()" % U(v_.generators[0].target):
                continue
            return False
        return True
    jloops = [C.enclosing_loop(j) for j in joins]
    jloops = [l for l in jloops if isinstance(l, ast.For) and covers_workers(l) and C.in_subtree(l, w)]
    last = w.body[-1]
    reach_without_join = cfg.reachable(sloop, last, avoid=jloops, within=None) if jloops else True
    ctx.check(bool(jloops) and not reach_without_join, "R3", "all paths from start() to the end of the block join every worker",
              f.where(w), "there is a path through the manager block on which started workers are never joined (zombie "
              "processes / results read while workers still append)", f.qname, "start/join pairing")
    for l in jloops:
        ok = any(U(s) == "%s.join()" % U(l.target) for s in l.body) or any(
            U(s) == "%s.join()" % U(l.target) for s in ast.walk(l) if isinstance(s, ast.Expr) and s in l.body)
        ctx.check(ok, "R3", "join loop joins unconditionally: for %s in %s" % (U(l.target), plist), f.where(l),
                  "a worker loop joins only some workers", f.qname, "unconditional join " + str(l.lineno - w.lineno))
    # kill before join on the time-out path
    kills = [c for c in ast.walk(w) if isinstance(c, ast.Call) and (pm.call_name(c) == "os.kill" or (
        isinstance(c.func, ast.Attribute) and c.func.attr in ("kill", "terminate")))]
    okk = False
    for k in kills:
        l = C.enclosing_loop(k)
        if isinstance(l, ast.For) and covers_workers(l) and (any(n in l.body or C.in_subtree(l, p) for p in polls for n in [l])
                                                                or any(cfg.dominates(s_, l) for s_ in sets)):
            def live_only(l_):
                # the loop variable ranges over workers a poll has just seen alive (every reaching definition is such a filter)
                if not isinstance(l_.iter, ast.Name):
                    return False
                try:
                    ds2 = C.flow_of(f).reaching(l_, l_.iter.id)
                except Exception:
                    return False
                return bool(ds2) and all(getattr(d2, "value", None) is not None and isinstance(d2.value, (ast.ListComp, ast.GeneratorExp))
                                         and any("is_alive()" in U(c2) for g2 in d2.value.generators for c2 in g2.ifs) for d2 in ds2)
            alive = any(p2 and "is_alive()" in U(e) for e, p2 in C.facts_at(k, stop=l)) or live_only(l)
            j = [s for s in l.body if U(s) == "%s.join()" % U(l.target)]
            order = bool(j) and cfg.reachable(k, j[0], within=l) and not cfg.reachable(j[0], k, within=l)
            # (on the time-out path: the exhaustion branch of `while <clock test>: .. else:`, or after timed_out was set)
            in_else = any(l in p.orelse for p in polls) or any(cfg.dominates(s_, l) for s_ in sets)
            uncatchable = ("SIGKILL" in U(k) and pm.call_name(k) == "os.kill") or (
                isinstance(k.func, ast.Attribute) and k.func.attr == "kill" and pm.call_name(k) != "os.kill")
            if alive and order and in_else and not uncatchable:
                ctx.node_bad("R3", f, k, "live workers are stopped with `%s`, i.e. SIGTERM: the forked workers inherit the host "
                             "process's signal dispositions, so a handler that does not exit (or SIG_IGN) lets them survive, the "
                             "join() that follows blocks until the exponential search finishes, and the analysis no longer "
                             "returns within the timeout (only SIGKILL / Process.kill() cannot be caught)" % U(k)[:60])
                okk = None
                continue
            if alive and order and in_else:
                okk = True
                ctx.node_ok("R3", f, k, "time-out path: live workers are killed (%s), then every worker is joined" % U(k)[:50])
    if okk is not None:
        ctx.judge(okk, not poll_helpers, "R3", "time-out path kills live workers before joining", f.where(w),
                  "on the time-out path workers that are still alive are not killed before join(): the analysis would block "
                  "until they finish (no time-out) or leave them running", f.qname, "kill before join")
    shared = pm.find("M_a = M_m.list()", w)
    sname = U(shared[0][1]["M_a"]) if shared else "?"
    cp = [n for n, b in pm.find("M_b = list(%s)" % sname, w)]
    ok = len(cp) == 1 and cp[0] in w.body and all(cfg.reachable(l, cp[0]) and not cfg.reachable(cp[0], l) for l in jloops)
    ok = ok and bool(shared)
    ctx.check(ok, "R4", "list(shared) is taken in the with-block after all joins", f.where(cp[0]) if cp else f.where(w),
              "the manager's list is not copied to a plain list inside the block after the joins (it is unusable once the "
              "manager is shut down, and unstable while workers append)", f.qname, "copy before teardown")
    # ------------------------------------------------------------------ R5
    ctx.rule("R5", "the search writes only locals, self.timed_out and copies")
    for fi in (f, ext):
        stores = []
        for n in ast.walk(fi.node):
            tg = n.targets if isinstance(n, ast.Assign) else [n.target] if isinstance(n, ast.AugAssign) else []
            for t in tg:
                for tt in (t.elts if isinstance(t, (ast.Tuple, ast.List)) else [t]):
                    if isinstance(tt, ast.Attribute):
                        stores.append((n, tt))
                    elif isinstance(tt, ast.Subscript) and U(tt.value).startswith("self."):
                        stores.append((n, tt))
        for n, t in stores:
            txt = U(t)
            if txt == "self.timed_out":
                ctx.node_ok("R5", fi, n, "flag store")
                continue
            # store on a copy made in this function
            base = t.value
            while isinstance(base, (ast.Attribute, ast.Subscript)):
                base = base.value
            copied = isinstance(base, ast.Name) and any(
                C.is_call_to(a.value, "copy", "deepcopy") for a in C.assigns_to(fi.node, base.id))
            if copied:
                ctx.node_ok("R5", fi, n, "store on a local copy: " + txt)
            else:
                ctx.node_bad("R5", fi, n, "the LCD search stores into %s, which is not a local copy: throughput / "
                             "critical-path data of the analysed kernel (or the graph they use) changes when the search "
                             "runs or is cut short" % txt)
    eff = effects_of(ctx)
    s = eff.summ.get(FN)
    kp = C.param_index(f, f.params()[1])
    ctx.check(s is not None and kp not in s.mutates, "R5", "the kernel list is not mutated in place by the search", f.where(),
              "check_for_loopcarried_dep mutates its kernel argument: %s" % (s.mutates.get(kp) if s else ""), f.qname,
              "kernel not mutated")
    se = eff.summ.get("KernelDG._extend_path")
    mut = set(se.mutates) if se else set()
    ctx.check(mut <= {0}, "R5", "_extend_path mutates only the shared result list", ext.where(),
              "_extend_path mutates parameter(s) %s" % sorted(mut), ext.qname, "worker write set")
    dgdef = [a for a in C.assigns_to(f.node, "dg")]
    ctx.check(len(dgdef) == 1 and C.is_call_to(dgdef[0].value, "create_DG") and U(dgdef[0].value.args[0]) != f.params()[1], "R5",
              "the search builds its own graph over the doubled kernel (self.dg untouched)", f.where(),
              "the LCD graph is not a fresh graph over the doubled kernel", f.qname, "own graph")
    # ------------------------------------------------------------------ R6
    ctx.rule("R6", "every path-enumeration site is under the time-out's control")
    sites = [(fi, c) for fi in (f, ext) for c in C.calls_to(fi.node, "all_simple_paths", "all_simple_edge_paths", "simple_cycles", "shortest_simple_paths")]
    ctx.floor("R6", "enumeration sites", len(sites), 2)
    for fi, c in sites:
        if fi is ext:
            # worker: target of a Process the parent polls and kills
            tg = [k for p in ast.walk(f.node) if isinstance(p, ast.Call) and pm.call_name(p).endswith("Process")
                  for k in p.keywords if k.arg == "target" and U(k.value).endswith("_extend_path")]
            direct = [x for q in ctx.repo.all_funcs() for x in C.calls_to(q.node, "_extend_path")]
            ok = bool(tg) and not direct and okk and bool(polls)
            if not ok and poll_helpers and bool(tg) and not direct:
                ctx.unknown("R6", U(c)[:80], fi.where(c), "worker control (poll and kill) is not recognised, see R1")
                continue
            if ok:
                ctx.node_ok("R6", fi, c, "runs only inside a worker process that the parent polls against the timeout and kills")
            else:
                ctx.node_bad("R6", fi, c, "this enumeration runs outside a polled-and-killed worker (direct calls: %d)" % len(direct))
            continue
        st = cfg.node_of(c)
        ok = False
        if isinstance(st, ast.Assign) and isinstance(st.targets[0], ast.Name) and st.value is c:
            # the generator is held in a local and consumed by one loop
            cons = [l for l in ast.walk(fi.node) if isinstance(l, ast.For) and U(l.iter) == st.targets[0].id]
            if len(cons) == 1:
                st = cons[0]
        if isinstance(st, ast.For) and (C.in_subtree(c, st.iter) or isinstance(st.iter, ast.Name)):
            # loop consuming the generator: a deadline test in every iteration that leaves the loop
            for n in st.body:
                if isinstance(n, ast.If) and any(isinstance(x, ast.Break) for x in n.body) and _is_timeout_test(n.test, n):
                    ok = True
        only_untimed = any(p2 and U(e) == "%s == -1" % tmo for e, p2 in C.facts_at(c))
        if ok and not only_untimed:
            # the deadline is only tested when the generator yields: it must not be able to search for long without yielding.
            # On the acyclic doubled graph that holds when the search is confined to the nodes lying on a source->target path
            # (every branch of the enumeration then ends in a path).
            from . import c05
            restr = c05.searched_graph(fi, c)[3]
            ctx.judge(restr == "on-path", restr != "?", "R6", "the enumeration yields regularly (search confined to nodes on a source->target path)",
                      fi.where(c), "the deadline is tested once per path found, but `%s` explores every branch of the whole graph: when the "
                      "root's copy in the next iteration is unreachable, or reachable through few of many branches, the generator runs for "
                      "an exponential time without yielding and --lcd-timeout is not honoured (sequential search, kernels below "
                      "INSTRUCTION_THRESHOLD)" % U(c)[:90], fi.qname, "yield-bounded enumeration")
        if ok or only_untimed:
            ctx.node_ok("R6", fi, c, "generator is consumed by a loop that tests the deadline in every iteration")
        else:
            ctx.bad("R6", "enumeration at %s" % fi.where(c), fi.where(c),
                    "all simple paths between two nodes are enumerated here without any deadline: the branch for kernels "
                    "below INSTRUCTION_THRESHOLD never looks at the timeout, so a small kernel with many interleaved "
                    "dependency chains runs for minutes although --lcd-timeout promises to stop", fi.qname,
                    "uncontrolled " + U(c)[:80], fi.module.excerpt(c))
    # a search that finishes in time is complete: every kernel line is a root in the multi-process search (C16-R1)
    from . import c16
    ctx.rule("R7", "a search that is not cut short covers every root (partition premises, C16-R1)")
    c16.reuse_r1(ctx, "R7", "the result is incomplete although no time-out occurred and no warning is shown")
    # partial results are post-processed like complete ones: one loop over the merged list after both branches
    post = [l for l in ast.walk(f.node) if isinstance(l, ast.For) and U(l.iter) == "all_paths" and not C.enclosing_loops(l)]
    ctx.check(len(post) == 1 and all(cfg.reachable(n, post[0]) for n in sets), "R6",
              "partial results flow through the same post-processing as complete ones", f.where(),
              "after a time-out the paths found so far are not post-processed (de-duplicated, summed, sorted) like a "
              "complete result", f.qname, "partial post-processing")
