"""C02 - optimised schedule never worse than uniform (clause 1, by lemma premises)."""
import ast

from .. import pm
from ..pm import U
from . import common as C
from .c01 import BAL, balancer_parts

TECHNIQUE = "static analysis: the shape premises of a pen-and-paper lemma are checked on assign_optimal_throughput (pairing and direction of the quantum moves, quantum = rounding step of the totals, strictness and direction of the alternative selection, start from alternative 0, step budget)"
EXPLANATION = (
    "Lemma: if every balancing step moves the same quantum d from a port whose kernel total is largest among the "
    "micro-op's ports to one whose total is smallest (P1 = C01-R3), the totals are multiples of d (P2: "
    "round(..., 2) in get_throughput_sum <-> INC = 0.01), the main branch starts from alternative 0 - the one "
    "--fixed costs - (P3), and another alternative replaces the current assignment only under strict comparisons "
    "of the bottlenecks (P4: `<` when collecting the best, `>` when swapping it in), then no step increases "
    "max(port totals) beyond the rounding quantum: if the two totals differ by >= d the receiver stays <= the "
    "donor's old value, if they are equal donor and receiver are the same list position and the step is void. "
    "Hence optimised bottleneck <= uniform bottleneck up to that quantum. P5: a step is taken only while the "
    "micro-op's ports are unbalanced and at most cycles/INC steps per micro-op. P6: the balancer is the only "
    "writer of port_pressure after add_semantics on the optimised path (no other pass can raise the bottleneck). "
    "P8 (a necessary condition of the 0.15-cycle clause, not the clause itself): osaca.inspect runs at least two sweeps of the "
    "balancer, each guarded by `not args.fixed` only; one sweep provably leaves the kernel {0,1},{0,1},{2},{1,2} 0.167 cy "
    "above its optimum; a sweep under a data-dependent condition is reported as not understood. P0b: the pressure vector the balancer edits in place is owned by that instruction form alone - the ownership analysis (C01-R6 / C18-R2, embedded) finds no in-place mutator applied to model storage or to any container the model object keeps (e.g. a memoised vector handed out by reference)."
)
NOT_DECIDED = (
    "'Never undercuts the exact optimum' and the 0.15-cycle bound against the LP optimum on the enumerated family: "
    "statements about the numerical trajectory of a greedy loop; no abstract domain in reach bounds the gap."
)
ASSUMPTIONS = ["the lemma stated in EXPLANATION / DESIGN.md section 5 C02", "alternatives maps have keys 0..n-1 in order (C15-D1)"]


def run(ctx):
    C.require_locals(ctx, ctx.func('ArchSemantics.assign_optimal_throughput'), ['INC', 'port_sums', 'instr_ports', 'max_port_idx', 'min_port_idx', 'kernel', 'instruction_form', 'idx', 'k_tmp', 'best_kernel', 'best_kernel_tp', 'multiple_assignments', 'cycles'])
    P = balancer_parts(ctx)
    f, sl, ul = P["f"], P["step_loop"], P["uop_loop"]
    # ---- P0: the balancer only moves pressure between the ports of the micro-ops in port_uops; pressure that the uniform
    # split put on any other port stays there, so the result can be worse OR better than any admissible schedule
    from . import c08
    ctx.rule("P0", "starting point: the uniform pressure of a composed form lies on the ports of the micro-ops kept in port_uops (C08-R1)")
    C.embed(ctx, "C08", c08.composition_rule, "P0", "composed form (C08-R1)",
            "pressure and micro-ops of a composed instruction come from different sources: the balancer cannot move the share that lies "
            "on ports outside port_uops", ctx.func("ArchSemantics.assign_tp_lt").where())
    # ---- P0b: the vector the balancer edits in place is the instruction's own: not the model's (or a memoised one shared
    # by all instructions with the same micro-ops, whose balanced state would be the next kernel's "uniform" start)
    from . import c01
    ctx.rule("P0b", "the pressure vector the balancer edits in place belongs to that instruction alone (ownership analysis, C01-R6 / C18-R2)")
    C.embed(ctx, "C01", c01._r6, "P0b", "own pressure vector (C01-R6)",
            "the balancer edits a vector that other instructions (or later analyses) share: the uniform starting point of the "
            "lemma no longer holds for them", f.where())
    # ---- P1 pairing and direction (re-evaluated here: a premise of this lemma)
    ctx.rule("P1", "each step moves one quantum from the max-loaded to the min-loaded admissible port")
    direct = [n for n in sl.body if isinstance(n, ast.AugAssign) and isinstance(n.target, ast.Subscript) and U(n.target.value) == "instr_ports"]
    minus = [n for n in direct if isinstance(n.op, ast.Sub) and U(n.value) == "INC"]
    plus = [n for n in direct if isinstance(n.op, ast.Add) and U(n.value) == "INC"]
    ok = len(minus) == 1 and len(plus) == 1
    if ok:
        dm = [a for a in sl.body if isinstance(a, ast.Assign) and U(a.targets[0]) == U(minus[0].target.slice)]
        dp = [a for a in sl.body if isinstance(a, ast.Assign) and U(a.targets[0]) == U(plus[0].target.slice)]
        ok = bool(dm) and bool(dp) and U(dm[0].value) == "port_sums.index(max(port_sums))" and U(dp[0].value) == "port_sums.index(min(port_sums))"
    ctx.check(ok, "P1", "instr_ports[argmax port_sums] -= INC; instr_ports[argmin port_sums] += INC", f.where(sl),
              "the balancing step does not move INC from the port with the largest kernel total to the one with the smallest: a "
              "step in the wrong direction raises the bottleneck", f.qname, "step direction")
    wr = [n for n in sl.body if isinstance(n, ast.Expr) and isinstance(n.value, ast.Call) and isinstance(n.value.func, ast.Call)
          and C.is_call_to(n.value.func, "_itemsetter")]
    cfg = C.cfg_of(f)
    ctx.check(bool(wr) and ok and cfg.dominates(plus[0], wr[0]) and cfg.dominates(minus[0], wr[0]), "P1",
              "the moved quantum is written back to the instruction before the totals are re-read", f.where(sl),
              "the balanced values are not written back to port_pressure after the move", f.qname, "write back")
    # ---- P2 quantum agreement
    ctx.rule("P2", "balancing quantum = rounding step of the per-port totals")
    inc = P["inc"]
    s = ctx.func("ArchSemantics.get_throughput_sum")
    sh = C.aggregator_shape(ctx)
    dig = C.const_value(ctx, s, sh["digits"]) if sh["ok"] else None
    incv = C.const_value(ctx, f, inc.value) if inc is not None else None
    ok = incv is not None and dig is not None and abs(10 ** (-dig) - incv) < 1e-12
    ctx.judge(ok, sh["ok"] and inc is not None and incv is not None and dig is not None, "P2", "INC = 0.01 and totals are rounded to 2 decimals",
              f.where(inc) if inc is not None else f.where(),
              "the quantum INC = %s and the rounding round(..., %s) of the totals disagree: totals are no longer multiples of the "
              "quantum and the comparison of port sums (hence termination and the bottleneck bound) breaks" % (
                  U(inc.value) if inc is not None else None, U(sh["digits"]) if sh["digits"] is not None else None), f.qname, "quantum agreement")
    # the totals are rounded ONCE, after the unrounded per-line values were summed
    inner = sh["inner_rounds"] if sh["ok"] else []
    ctx.judge(sh["ok"] and not inner, sh["ok"], "P2",
              "per-port totals = round(sum(unrounded per-line values)) - rounded once", s.where(inner[0]) if inner else s.where(),
              "get_throughput_sum also rounds the per-line values (`%s`) before summing them: each line can lose up to half a "
              "rounding step, the losses add up over the lines, and the reported bottleneck undercuts the exact optimum by more "
              "than one rounding step (4 micro-ops on 3 ports: 4 x 0.33 = 1.32 against 4/3)" % (U(inner[0])[:80] if inner else sh["why"]),
              s.qname, "single rounding")
    rng = sl.iter
    ctx.check(U(rng) in ("range(int(cycles * (1 / INC)))", "range(int(cycles / INC))", "range(round(cycles / INC))"), "P2",
              "at most cycles / INC steps per micro-op", f.where(sl), "step budget is %s" % U(rng), f.qname, "step budget")
    # ---- P3 start from alternative 0
    ctx.rule("P3", "the main branch starts from alternative 0 (the one --fixed costs)")
    br = [n for n in ast.walk(f.node) if isinstance(n, ast.If) and U(n.test) == "isinstance(instruction_form.port_uops, dict)"]
    if len(br) != 1:
        ctx.broken("P3: alternatives branch not found")
    b = br[0]
    main = pm.find("kernel[idx].port_uops = list(instruction_form.port_uops.values())[0]", b)
    others = pm.find("for M_a in list(instruction_form.port_uops.values())[1:]:\n    REST_", b)
    ctx.check(len(main) == 1, "P3", "main branch takes values()[0]", f.where(b), "the main branch does not continue with alternative 0", f.qname, "main alternative")
    ctx.check(len(others) == 1, "P3", "the explored alternatives are exactly values()[1:]", f.where(b),
              "the other alternatives are not iterated as values()[1:]", f.qname, "explored alternatives")
    ap = ctx.func("MachineModel.average_port_pressure")
    a = ap.node.args
    dflt = {x.arg: d for x, d in zip(a.args[len(a.args) - len(a.defaults):], a.defaults)}
    ctx.check("option" in dflt and C.const_num(dflt["option"]) == 0, "P3", "--fixed costs option 0", ap.where(),
              "average_port_pressure's default option is not 0", ap.qname, "default option")
    # the pressure the main branch starts from is the one add_semantics computed from option 0 (not re-assigned here)
    re_main = [n for n in ast.walk(b) if isinstance(n, ast.Assign) and U(n.targets[0]) in ("kernel[idx].port_pressure", "instruction_form.port_pressure")]
    ctx.check(not re_main, "P3", "main branch keeps the pressure computed from option 0", f.where(b),
              "the main branch re-assigns port_pressure when selecting its alternative", f.qname, "main pressure untouched")
    # ---- P4 selection direction
    ctx.rule("P4", "an alternative replaces the current assignment only under strict comparison of bottlenecks")
    col = [n for n in ast.walk(b) if isinstance(n, ast.If) and "best_kernel_tp" in U(n.test)]
    okc, rec_c = False, False
    if len(col) == 1:
        fl = C.flow_of(f)
        def held(e):
            """a local that holds max(self.get_throughput_sum(K)) (one definition) stands for that expression"""
            if isinstance(e, ast.Name) and e.id not in ("best_kernel_tp",):
                ds = [a_ for a_ in C.assigns_to(f.node, e.id) if isinstance(a_, ast.Assign)]
                if len(ds) == 1 and pm.match("max(self.get_throughput_sum(M_k))", ds[0].value) is not None:
                    return ds[0].value
            return e
        t = col[0].test
        if isinstance(t, ast.Compare) and len(t.ops) == 1:
            t = ast.Compare(left=held(t.left), ops=t.ops, comparators=[held(t.comparators[0])])
            ast.fix_missing_locations(t)
        bt = pm.match("max(self.get_throughput_sum(M_k)) < best_kernel_tp", t)
        loose = pm.match("max(self.get_throughput_sum(M_k)) <= best_kernel_tp", t) or pm.match(
            "max(self.get_throughput_sum(M_k)) > best_kernel_tp", t) or pm.match("max(self.get_throughput_sum(M_k)) >= best_kernel_tp", t)
        rec_c = bt is not None or loose is not None
        if bt is not None:
            kk = U(bt["M_k"])
            keep = any(isinstance(s_, ast.Assign) and U(s_.targets[0]) == "best_kernel" and U(s_.value) == kk for s_ in col[0].body)
            tpv = [s_ for s_ in col[0].body if isinstance(s_, ast.Assign) and U(s_.targets[0]) == "best_kernel_tp"]
            tp_ok = bool(tpv) and U(held(tpv[0].value)).replace("best_kernel", kk) == "max(self.get_throughput_sum(%s))" % kk
            okc = keep and tp_ok
    ctx.judge(okc, rec_c, "P4", "collecting: keep an alternative iff its bottleneck is strictly smaller than the best so far", f.where(col[0]) if col else f.where(b),
              "the best alternative is not selected by `max(totals(alt)) < best so far` with both `best_kernel` and its bottleneck "
              "updated together", f.qname, "collect best")
    init = [a2 for a2 in ast.walk(b) if isinstance(a2, ast.Assign) and U(a2.targets[0]) == "best_kernel_tp"]
    ctx.check(bool(init) and U(init[0].value) == "sys.maxsize", "P4", "best-so-far starts at +infinity", f.where(b),
              "best_kernel_tp is initialised to %s" % (U(init[0].value) if init else None), f.qname, "best init")
    # swapping in: a loop pairing the lines of `kernel` with those of `best_kernel` copies port_pressure, under
    # `multiple_assignments` and `max(totals(kernel)) > best_kernel_tp` (nested or merged, helper or in place)
    oks, rec_s, sw = False, False, []
    for l in [x for x in ast.walk(f.node) if isinstance(x, ast.For) and "best_kernel" in U(x.iter)]:
        own = other = None
        it = l.iter
        bz = pm.match("zip(kernel, best_kernel)", it)
        if bz is not None and isinstance(l.target, ast.Tuple) and len(l.target.elts) == 2:
            own, other = U(l.target.elts[0]), U(l.target.elts[1])
        elif pm.match("enumerate(best_kernel)", it) is not None and isinstance(l.target, ast.Tuple) and len(l.target.elts) == 2:
            own, other = "kernel[%s]" % U(l.target.elts[0]), U(l.target.elts[1])
        elif pm.match("range(len(best_kernel))", it) is not None or pm.match("range(len(kernel))", it) is not None:
            own, other = "kernel[%s]" % U(l.target), "best_kernel[%s]" % U(l.target)
        if own is None:
            continue
        alt_other = "best_kernel[%s]" % U(l.target.elts[0]) if isinstance(l.target, ast.Tuple) else other
        pairs = [st for st in l.body if isinstance(st, ast.Assign) and isinstance(st.targets[0], ast.Attribute)
                 and U(st.targets[0].value) == own and isinstance(st.value, ast.Attribute) and U(st.value.value) in (other, alt_other)
                 and st.value.attr == st.targets[0].attr]
        if not pairs or len(l.body) > 2 or any(isinstance(x, (ast.If, ast.Continue, ast.Break)) for x in ast.walk(l)):
            continue
        copies = [st for st in pairs if st.targets[0].attr == "port_pressure"]
        sw = [l]
        facts = [(U(e), pol) for e, pol in C.facts_at(l)]
        has_flag = ("multiple_assignments", True) in facts
        strict = (C.CT("max(self.get_throughput_sum(kernel)) > best_kernel_tp"), True) in facts
        loose = any(pol and "best_kernel_tp" in t and "get_throughput_sum(kernel)" in t for t, pol in facts)
        rec_s = has_flag and (strict or loose)
        oks = has_flag and strict and bool(copies)
    ctx.judge(oks, rec_s, "P4", "swapping: take the best alternative iff the main branch's bottleneck is strictly larger", f.where(sw[0]) if sw else f.where(),
              "the final choice between main branch and best alternative is not `max(totals(main)) > best` taking over the "
              "port_pressure of every line unconditionally", f.qname, "swap in best")
    if sw:
        ctx.check(cfg.dominates(pm.find("kernel.reverse()", f.node)[-1][0], sw[0]) if len(pm.find("kernel.reverse()", f.node)) == 2 else False, "P4",
                  "the comparison happens after the kernel order was restored", f.where(sw[0]),
                  "kernel.reverse() pairing changed", f.qname, "reverse pairing")
    # ---- P5 step only while unbalanced
    ctx.rule("P5", "steps are taken only while the micro-op's ports are unbalanced")
    ctx.check(C.holds_at(sl, "len(set(port_sums)) > 1", stop=ul), "P5", "balancing only if the ports' totals differ", f.where(ul),
              "the step loop is not guarded by `len(set(port_sums)) > 1`", f.qname, "unbalanced guard")
    one = [n for n in sl.body if isinstance(n, ast.If) and U(n.test) == "len(instr_ports) == 1" and any(isinstance(x, ast.Break) for x in n.body)]
    ctx.check(bool(one) and one[0] is sl.body[0], "P5", "stop when only one port is left", f.where(sl),
              "the step loop no longer stops when a single port remains", f.qname, "single port stop")
    # ---- P7 the balancing set starts as ALL ports of the micro-op
    ctx.rule("P7", "balancing starts over every admissible port of the micro-op (ports are dropped only inside the step loop)")
    from ..flow import Flow
    flow = C.flow_of(f)
    ps = P["defs"].get("port_sums")
    first_use = ps if ps is not None else sl
    try:
        reach = flow.reaching(first_use, "indices")
    except KeyError:
        reach = []
    vals = sorted({U(d.value) for d in reach if d.value is not None})
    ctx.check(vals == ["[port_list.index(p) for p in ports]"], "P7", "indices = all ports of the micro-op when balancing starts",
              f.where(first_use), "when the balancing of a micro-op starts, `indices` may already be restricted (%s): ports the "
              "instruction currently puts no pressure on are excluded, so a later pass can never move load back onto a port that "
              "an earlier greedy pass drained - the result stays above the optimum of the kernel" % vals, f.qname,
              "initial balancing set")
    # ---- P6 no other writer on the optimised path
    ctx.rule("P6", "after add_semantics only the balancer changes port_pressure on the optimised path")
    insp = ctx.func("osaca.inspect")
    calls = C.calls_to(insp.node, "assign_optimal_throughput")
    facts_ok = all(any((not p) and U(e) == "args.fixed" for e, p in C.facts_at(c)) for c in calls)
    ctx.check(bool(calls) and facts_ok, "P6", "optimisation runs exactly when --fixed is not given", insp.where(),
              "assign_optimal_throughput is not guarded by `not args.fixed`", insp.qname, "fixed guard")
    # P8: number of sweeps
    ctx.rule("P8", "the command line path sweeps the kernel at least twice, each sweep guarded by `not args.fixed` only")
    base = C.calls_to(insp.node, "add_semantics")
    base_facts = {(U(e), p) for e, p in C.facts_at(base[0])} if base else set()
    uncond, cond = 0, []
    for c in calls:
        extra = {(U(e), p) for e, p in C.facts_at(c)} - base_facts - {("args.fixed", False)}
        mult = 1
        for lp in C.enclosing_loops(c):
            k = None
            if isinstance(lp, ast.For) and isinstance(lp.iter, ast.Call) and U(lp.iter.func) == "range" and len(lp.iter.args) == 1 \
                    and C.const_num(lp.iter.args[0]) is not None and not any(isinstance(x, (ast.Break, ast.Return)) for x in ast.walk(lp)):
                k = int(C.const_num(lp.iter.args[0]))
            if k is None:
                extra.add(("loop " + U(lp.iter if isinstance(lp, ast.For) else lp.test)[:60], True))
            else:
                mult *= k
        if extra:
            cond.append((c, sorted(extra)))
        else:
            uncond += mult
    if uncond >= 2:
        ctx.ok("P8", "%d unconditional sweep(s) on the optimised path" % uncond, insp.where(calls[0]))
    elif cond:
        ctx.unknown("P8", "number of sweeps", insp.where(cond[0][0]),
                    "only %d sweep(s) run unconditionally; a further one depends on %s - whether it runs for the kernels that "
                    "need it is a run-time question" % (uncond, cond[0][1]))
    else:
        ctx.bad("P8", "number of sweeps", insp.where(calls[0]) if calls else insp.where(),
                "the optimised path runs assign_optimal_throughput %d time(s). The balancer (shape checked by P1-P7) visits the "
                "instruction forms back to front and skips a micro-op whose admissible ports carry equal totals at that moment, so "
                "one sweep can level the ports below the bottleneck without touching it: forms on ports {0,1},{0,1},{2},{1,2} end "
                "at 1.25/1.25/1.50 after one sweep and at 1.31/1.31/1.38 after two, the exact optimum being 1.333 - a single sweep "
                "is 0.167 cy above it, outside the property's 0.15 cy bound" % uncond, insp.qname, "sweep count")
    from ..flow import attr_stores
    writers = {fn.qname for fn, st, v, t in attr_stores(ctx.repo, "port_pressure") if not fn.file.startswith("osaca/data/")}
    allowed = {"ArchSemantics.assign_tp_lt", "ArchSemantics._handle_instruction_found", "ArchSemantics.assign_optimal_throughput",
               "ArchSemantics.set_hidden_loads", "InstructionForm.__init__", "InstructionForm.port_pressure", "MachineModel.set_instruction"}
    # a new helper that was expanded into an allowed writer is that writer's code (osaca_sa/inline.py)
    callers_of = {}
    for caller, helper in getattr(ctx.repo, "inlined", []):
        callers_of.setdefault(helper, set()).add(caller)
    for _ in range(3):
        for h, cs in callers_of.items():
            if h in writers and all(c in allowed for c in cs):
                allowed.add(h)
    ctx.check(writers <= allowed, "P6", "writers of port_pressure: %s" % sorted(writers), "",
              "port_pressure is also written by %s" % sorted(writers - allowed), "osaca", "port_pressure writers")
