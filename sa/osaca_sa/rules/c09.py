"""C09 - x86 AT&T parser recovers every line and operand exactly as written."""
import ast

from .. import pm
from ..pm import U
from ..ppgrammar import Grammar
from . import common as C
from . import parsers as P

TECHNIQUE = "static analysis: abstract interpretation of construct_parser into a grammar IR (result-name trees, terminal vocabulary); writer/reader agreement between grammar result names and post-processing key reads; number-base agreement between tokens and conversions; classification-order and whole-line checks on parse_line; product-automaton search for ties/shadowing between alternatives of each alternation against a reviewed order table; affine line numbering; (thorough) language inclusion of the property's line language in a regular over-approximation of the grammar"
EXPLANATION = (
    "R1: the number handed to parse_line is derived symbolically (0-based index of the line in content.split('\\n'), from enumerate minus its start or from a counter that the CFG shows to be incremented in every iteration) and must equal index + 1 + start_line; nothing is removed from the text before the split (rstrip only); only blank lines are skipped, inside the numbered loop. R2: the line attribute is the untouched parameter. R3: attempts in the order comment, label, directive, instruction, each later one guarded by 'no earlier result', each on the whole line; mnemonic and operands are set only for instructions; an unparsable line raises. R4: every result name the operand model needs (memory offset/base/index/scale, register name, immediate value, identifier/label name, directive name/parameters) is produced by the grammar under that operand and read by the post-processing; no key is read that the grammar cannot produce; every operand alternative is dispatched. R5: every conversion of a token that may be hexadecimal uses base 0; the scale defaults to 1. R6: instruction, label and directive grammars end with the optional comment; no whitespace-sensitivity switch. T: the terminals cover the characters/literals the property's inputs use. R8: pyparsing's `^` returns the longest match and the first listed alternative among equally long ones, `|` the first alternative that matches at all; for every pair of alternatives of one alternation whose regular envelopes share a word (tie) or where a word of one is a prefix of a word of the other (shadowing) the order in the code must be the reviewed one of spec/grammar_order.json (pairs are identified by result name and by the probe strings their envelopes accept); a reviewed pair in reversed order is a violation when its inputs belong to the property's vocabulary (displacement-only memory reference vs. numeric label, hexadecimal vs. decimal, number vs. identifier, offset(base) vs. bare offset), otherwise it is reported as not understood. R7 (thorough): the language of rendered lines described by the property is included in the grammar's regular envelope."
)
NOT_DECIDED = (
    "That the recovered operand values equal the written ones for every input (a property of pyparsing's run "
    "time) and acceptance itself (the envelope over-approximates pyparsing)."
)
ASSUMPTIONS = ["pyparsing's naming semantics as modelled in osaca_sa/ppgrammar.py (Group nests, other expressions propagate names upwards)"]
CLS = "ParserX86ATT"


def run(ctx):
    C.require_locals(ctx, ctx.func('ParserX86ATT.process_memory_address'), ['memory_address'])
    C.require_locals(ctx, ctx.func('ParserX86ATT.parse_line'), ['result'])
    C.require_locals(ctx, ctx.func('ParserX86ATT.parse_instruction'), ['result', 'operands'])
    gr = Grammar(ctx.repo, CLS)
    ctx.touch(gr.func)
    ctx.extra["grammar_variables"] = len(gr.order)
    P.r1_numbering(ctx)
    P.r2_verbatim(ctx, CLS)
    P.r3_classification(ctx, CLS, ("comment", "label", "directive", "instruction"))
    reads, op_tree = P.r4_keys(ctx, CLS, gr)
    n = P.r5_conversions(ctx, CLS, gr, reads, {"name", "scale"})
    ctx.floor("R5", "int() conversions of grammar tokens", n, 4)
    f = ctx.func(CLS + ".process_memory_address")
    M = f.params()[1]
    flow = C.flow_of(f)
    mos = [c for c in ast.walk(f.node) if isinstance(c, ast.Call) and pm.call_name(c) == "MemoryOperand"]
    if len(mos) != 1 or mos[0].args or any(k.arg is None for k in mos[0].keywords):
        ctx.unknown("R5", f.where(), "the memory operand is not built by one MemoryOperand(<keywords>) call", f.qname, "memory construction")
    else:
        mo = mos[0]
        kws = {k.arg: k.value for k in mo.keywords}
        ctx.check(all(k in kws for k in ("offset", "base", "index", "scale")), "R5",
                  "memory operand is built from offset/base/index/scale in their own slots", f.where(mo),
                  "MemoryOperand is constructed without one of offset/base/index/scale", f.qname, "memory construction")
        if "scale" in kws:
            r = flow.subst(kws["scale"])
            got = C.CT(U(r))
            want = C.CT('int(%s["scale"], 0) if "scale" in %s else 1' % (M, M))
            recognised = got == want or isinstance(r, (ast.IfExp, ast.Constant)) or (isinstance(r, ast.Call) and pm.call_name(r) == "int")
            ctx.judge(got == want, recognised, "R5", "omitted scale defaults to 1; a written scale is converted with base 0", f.where(mo),
                      "the scale handed to MemoryOperand is %s" % U(r), f.qname, "scale default")
        for slot in ("base", "index"):
            if slot not in kws:
                continue
            v = kws[slot]
            regs = []
            if isinstance(v, ast.Name):
                for d in flow.reaching(mo, v.id):
                    if d.kind == "assign" and isinstance(d.value, ast.Call) and pm.call_name(d.value) == "RegisterOperand":
                        regs.append(d.value)
                    elif d.kind == "assign" and isinstance(d.value, ast.Constant) and d.value.value is None:
                        pass
                    else:
                        regs.append(None)
            elif isinstance(v, ast.Call) and pm.call_name(v) == "RegisterOperand":
                regs.append(v)
            else:
                regs.append(None)
            if not regs or any(r is None for r in regs):
                ctx.unknown("R5", f.where(mo), "the %s register of the memory operand is not a RegisterOperand(..) built in this function" % slot,
                            f.qname, "%s slot" % slot)
                continue
            for r in regs:
                nm = [k.value for k in r.keywords if k.arg == "name"]
                src = flow.subst(nm[0]) if nm else None
                key = P.key_source(src.value, M) if isinstance(src, ast.Subscript) and isinstance(src.slice, ast.Constant) \
                    and src.slice.value == "name" else None
                ctx.judge(key == slot, key is not None, "R5", "%s register is built from the %s slot" % (slot, slot), f.where(r),
                          "the %s register is built from %s" % (slot, U(src) if src is not None else "nothing"), f.qname, "%s slot" % slot)
        if isinstance(kws.get("offset"), ast.Name):
            ov = kws["offset"].id
            foreign = set()
            for d in flow.reaching(mo, ov):
                if d.value is None:
                    continue
                for x in ast.walk(d.value):
                    if isinstance(x, ast.Constant) and x.value in ("base", "index", "scale"):
                        foreign.add(x.value)
            ctx.check(not foreign, "R5", "the offset slot is built from the written offset only", f.where(mo),
                      "the offset handed to MemoryOperand is computed from %s" % sorted(foreign), f.qname, "offset slot")
    pi = ctx.func(CLS + ".process_immediate")
    ip = pi.params()[1]
    iflow = C.flow_of(pi)
    imm = [c for c in ast.walk(pi.node) if isinstance(c, ast.Call) and pm.call_name(c) == "ImmediateOperand"
           and any(k.arg == "value" for k in c.keywords)]
    if not imm:
        ctx.unknown("R5", pi.where(), "no ImmediateOperand(value=..) is built in process_immediate", pi.qname, "immediate conversion")
    for c in imm:
        v = [k.value for k in c.keywords if k.arg == "value"][0]
        sv = iflow.subst(v)
        got = C.CT(U(sv))
        want_arg = C.CT('%s["value"]' % ip)
        # int(<value>, 0), or a conversion helper of the class called with base 0 (judged as a conversion site above)
        is_int = isinstance(sv, ast.Call) and isinstance(sv.func, ast.Name) and sv.func.id == "int" and sv.args and C.CT(U(sv.args[0])) == want_arg
        helper = isinstance(sv, ast.Call) and isinstance(sv.func, ast.Attribute) and isinstance(sv.func.value, ast.Name) and sv.func.value.id in (
            "self", "cls", CLS) and sv.args and C.CT(U(sv.args[0])) == want_arg
        ok_ = got == C.CT('int(%s["value"], 0)' % ip) or (helper and len(sv.args) > 1 and C.const_num(sv.args[1]) == 0)
        ctx.judge(ok_, is_int or not helper, "R5", "immediates become integers (sign and base from the literal)", pi.where(c),
                  "the immediate value is %s" % got, pi.qname, "immediate conversion")
    inst = ctx.func(CLS + ".parse_instruction")
    order = [U(c.args[0]) for c in C.calls_to(inst.node, "process_operand")]
    ctx.check(order == ["result['operand%d']" % i for i in range(1, 5)], "R4", "operands are collected in written order 1..4", inst.where(),
              "operands are collected as %s" % order, inst.qname, "operand order")
    mn = [k for c in ast.walk(inst.node) if isinstance(c, ast.Call) and pm.call_name(c) == "InstructionForm" for k in c.keywords if k.arg == "mnemonic"]
    ctx.check(bool(mn) and U(mn[0].value) == "result['mnemonic'].split(',')[0]", "R4", "mnemonic is the parsed mnemonic token", inst.where(),
              "mnemonic is %s" % (U(mn[0].value) if mn else None), inst.qname, "mnemonic source")
    P.r6_trailing(ctx, CLS, gr)
    P.r8_order(ctx, CLS, gr, "R8")
    P.t_terminals(ctx, CLS, gr)
    if ctx.tier == "thorough":
        from .. import automata
        automata.envelope_check(ctx, CLS, gr)
