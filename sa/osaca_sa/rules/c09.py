"""C09 - x86 AT&T parser recovers every line and operand exactly as written."""
import ast

from .. import pm
from ..pm import U
from ..ppgrammar import Grammar
from . import common as C
from . import parsers as P

TECHNIQUE = "static analysis: abstract interpretation of construct_parser into a grammar IR (result-name trees, terminal vocabulary); writer/reader agreement between grammar result names and post-processing key reads; number-base agreement between tokens and conversions; classification-order and whole-line checks on parse_line; product-automaton search for ties/shadowing between alternatives of each alternation against a reviewed order table; affine line numbering; (thorough) language inclusion of the property's line language in a regular over-approximation of the grammar"
EXPLANATION = (
    "R1: the number handed to parse_line is derived symbolically (0-based index of the line in content.split('\\n'), from enumerate minus its start or from a counter that the CFG shows to be incremented in every iteration) and must equal index + 1 + start_line; nothing is removed from the text before the split (rstrip only); only blank lines are skipped, inside the numbered loop. R2: the line attribute is the untouched parameter. R3: attempts in the order comment, label, directive, instruction, each later one guarded by 'no earlier result', each on the whole line; mnemonic and operands are set only for instructions; an unparsable line raises. R4: every result name the operand model needs (memory offset/base/index/scale, register name, immediate value, identifier/label name, directive name/parameters) is produced by the grammar under that operand and read by the post-processing; no key is read that the grammar cannot produce; every operand alternative is dispatched. R5: every conversion of a token that may be hexadecimal uses base 0; the scale defaults to 1. R6: instruction, label and directive grammars end with the optional comment; no whitespace-sensitivity switch. T: the terminals cover the characters/literals the property's inputs use. R8: pyparsing's `^` returns the longest match and the first listed alternative among equally long ones, `|` the first alternative that matches at all; for every pair of alternatives of one alternation whose regular envelopes share a word (tie) or where a word of one is a prefix of a word of the other (shadowing) the order in the code must be the reviewed one of spec/grammar_order.json (pairs are identified by result name and by the probe strings their envelopes accept); a reviewed pair in reversed order is a violation when its inputs belong to the property's vocabulary (displacement-only memory reference vs. numeric label, hexadecimal vs. decimal, number vs. identifier, offset(base) vs. bare offset), otherwise it is reported as not understood. R7 (thorough): the language of rendered lines described by the property is included in the grammar's regular envelope."
)
NOT_DECIDED = (
    "That the recovered operand values equal the written ones for every input (a property of pyparsing's run "
    "time) and acceptance itself (the envelope over-approximates pyparsing)."
)
ASSUMPTIONS = ["pyparsing's naming semantics as modelled in osaca_sa/ppgrammar.py (Group nests, other expressions propagate names upwards)"]
CLS = "ParserX86ATT"


def run(ctx):
    C.require_locals(ctx, ctx.func('ParserX86ATT.process_memory_address'), ['memory_address', 'offset', 'base', 'index', 'scale', 'baseOp', 'indexOp'])
    C.require_locals(ctx, ctx.func('ParserX86ATT.parse_line'), ['result'])
    C.require_locals(ctx, ctx.func('ParserX86ATT.parse_instruction'), ['result', 'operands'])
    gr = Grammar(ctx.repo, CLS)
    ctx.touch(gr.func)
    ctx.extra["grammar_variables"] = len(gr.order)
    P.r1_numbering(ctx)
    P.r2_verbatim(ctx, CLS)
    P.r3_classification(ctx, CLS, ("comment", "label", "directive", "instruction"))
    reads, op_tree = P.r4_keys(ctx, CLS, gr)
    n = P.r5_conversions(ctx, CLS, gr, reads, {"name", "scale"})
    ctx.floor("R5", "int() conversions of grammar tokens", n, 4)
    f = ctx.func(CLS + ".process_memory_address")
    sc = pm.find('scale = 1 if "scale" not in M_m else int(M_m["scale"], 0)', f.node)
    ctx.check(bool(sc), "R5", "omitted scale defaults to 1", f.where(), "scale default is not 1 when the scale is omitted", f.qname,
              "scale default")
    mo = pm.find("M_d = MemoryOperand(offset=offset, base=baseOp, index=indexOp, scale=scale)", f.node)
    ctx.check(bool(mo), "R5", "memory operand is built from offset/base/index/scale in their own slots", f.where(),
              "MemoryOperand is not constructed with offset=offset, base=<base register>, index=<index register>, scale=scale",
              f.qname, "memory construction")
    for var, key in (("baseOp", "base"), ("indexOp", "index")):
        d = [a for a in ast.walk(f.node) if isinstance(a, ast.Assign) and U(a.targets[0]) == var and isinstance(a.value, ast.Call)]
        ok = bool(d) and any(k.arg == "name" and U(k.value) == "%s['name']" % key for k in d[0].value.keywords)
        ctx.check(ok, "R5", "%s register is built from the %s slot" % (key, key), f.where(), "%s is built from another slot" % var,
                  f.qname, "%s slot" % key)
    pi = ctx.func(CLS + ".process_immediate")
    ctx.check(bool(pm.find('M_i = ImmediateOperand(value=int(immediate["value"], 0))', pi.node)), "R5",
              "immediates become integers (sign and base from the literal)", pi.where(), "immediate conversion changed", pi.qname,
              "immediate conversion")
    inst = ctx.func(CLS + ".parse_instruction")
    order = [U(c.args[0]) for c in C.calls_to(inst.node, "process_operand")]
    ctx.check(order == ["result['operand%d']" % i for i in range(1, 5)], "R4", "operands are collected in written order 1..4", inst.where(),
              "operands are collected as %s" % order, inst.qname, "operand order")
    mn = [k for c in ast.walk(inst.node) if isinstance(c, ast.Call) and pm.call_name(c) == "InstructionForm" for k in c.keywords if k.arg == "mnemonic"]
    ctx.check(bool(mn) and U(mn[0].value) == "result['mnemonic'].split(',')[0]", "R4", "mnemonic is the parsed mnemonic token", inst.where(),
              "mnemonic is %s" % (U(mn[0].value) if mn else None), inst.qname, "mnemonic source")
    P.r6_trailing(ctx, CLS, gr)
    P.r8_order(ctx, CLS, gr, "R8")
    P.t_terminals(ctx, CLS, gr)
    if ctx.tier == "thorough":
        from .. import automata
        automata.envelope_check(ctx, CLS, gr)
