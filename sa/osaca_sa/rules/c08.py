"""C08 - memory-operand forms compose register-form data with load/store data."""
import ast

from .. import pm
from ..pm import U
from . import common as C
from .c18 import effects_of, mutation_findings

TECHNIQUE = (
    'static analysis: provenance patterns (origin expression + combining operator) on the composition path of assign_tp_lt; None-discipline contradiction check via reaching definitions and guard facts; ownership analysis (no in-place mutation of model tables); data cross-reference of register types against multiplier tables ; container-vs-element contradiction check on the role lists; field agreement between shipped table rows, loader and matcher'
)
EXPLANATION = (
    "R1: on the composed path of ArchSemantics.assign_tp_lt port_pressure is the element-wise sum of the data-port vector and the register form's average, port_uops the concatenation of both micro-op lists, latency = register latency + load (+ store) latency of the register type at the substituted position, latency_wo_load originates from the register latency only, throughput = max(busiest data port, register throughput); the data-port vector is the (multiplier-scaled) average of the selected load/store micro-ops. R2: throughput/latency of a model entry are None-able (the loader passes ~ through; _handle_instruction_found guards both); every arithmetic/max/+= use of such a value in the semantics classes is dominated by a None test. R3: no in-place mutation of model storage while composing (the C18 ownership analysis restricted to the composition path). R4: the unknown path sets zero pressure/latency/throughput and both unknown flags, is taken exactly when neither form matched, and assign_tp_lt writes only the instruction it was given. D1: register types used by a model's entries are covered by its multiplier tables. R5 (contradiction): the operand role lists semantic_operands[...] are lists at every other use; an isinstance test of the list itself against an operand class is constant. D2 (writer/reader agreement): every field that a shipped load/store table row carries and that the addressing-mode matcher compares on the model side is handed to the MemoryOperand the loader builds for the row. R6: the look-ups that find the register form (assign_tp_lt) and its operand roles (assign_src_dst, from which HAS_LD/HAS_ST and so the load/store part of the composition follow) are each followed on their miss path by both suffix fall-backs with the same operand list - the register-wildcard operands - in every slot (rule shared with C07-R4)."
)
NOT_DECIDED = "Recomputation of the composed numbers over generated models (behavioural)."
ASSUMPTIONS = [
    "MachineModel.get_instruction returns None or an entry whose throughput/latency may be None (C15-D1 schema)",
]

FN = "ArchSemantics.assign_tp_lt"


def _composed_block(ctx, f):
    """The `if instruction_data_reg:` block (register form found) of assign_tp_lt."""
    regvars = []
    for n in ast.walk(f.node):
        if isinstance(n, ast.Assign) and isinstance(n.targets[0], ast.Name) and C.is_call_to(n.value, "get_instruction"):
            a0 = C.arg_of(n.value, 1)
            if a0 is not None and isinstance(a0, ast.Name) and a0.id != "operands" or (
                    a0 is not None and U(a0) == "operands"):
                pass
            regvars.append(n.targets[0].id)
    blocks = [n for n in ast.walk(f.node) if isinstance(n, ast.If) and isinstance(n.test, ast.Name)
              and n.test.id in regvars and any(U(s) == "assign_unknown = False" for s in n.body)]
    if len(blocks) != 1:
        ctx.broken("R1: the `if <register form>:` block that clears assign_unknown was not found in %s" % FN)
    return blocks[0], blocks[0].test.id


def _r1(ctx, f, blk, reg):
    ctx.rule("R1", "composition provenance: sum / concatenation / latency sum / max")
    flow = C.flow_of(f)

    def origins(name_or_expr):
        e = name_or_expr
        return flow.origin_text(e)

    def need(desc, ok, node=None, detail=""):
        ctx.check(ok, "R1", desc, f.where(node if node is not None else blk),
                  "composition provenance broken: %s %s" % (desc, detail), f.qname, desc)

    # port pressure = zip-sum(data ports, average(reg form))
    pp = [n for n, b in pm.find("instruction_form.port_pressure = M_v", blk)]
    ok = False
    detail = ""
    for n in pp:
        for pat in ("[sum(M_x) for M_x in zip(M_a, M_b)]", "[M_p + M_q for M_p, M_q in zip(M_a, M_b)]",
                    "list(map(sum, zip(M_a, M_b)))"):
            b = pm.match(pat, n.value)
            if b is None:
                continue
            sides = [b["M_a"], b["M_b"]]
            avg = [s for s in sides if pm.match("self._machine_model.average_port_pressure(%s.port_pressure)" % reg, s)]
            dpp = [s for s in sides if isinstance(s, ast.Name)]
            if len(avg) == 1 and len(dpp) == 1:
                ok = True
                dpp_name = dpp[0].id
        detail = U(n.value)[:160]
    need("port_pressure = element-wise sum(data-port vector, average(register form))", ok,
         pp[0] if pp else None, "(found: %s)" % detail)
    # port_uops = concat
    pu = [n for n, b in pm.find("instruction_form.port_uops = M_v", blk)]
    ok2 = False
    duops = None
    for n in pu:
        for pat in ("list(chain(M_a, M_b))", "M_a + M_b", "[*M_a, *M_b]", "list(M_a) + list(M_b)"):
            b = pm.match(pat, n.value)
            if b is None:
                continue
            def is_reg_uops(e):
                """the register form's micro-op container, directly or through a local that holds it / one option of it"""
                src0 = "%s.port_pressure" % reg
                opts = ["%s[M_k]", "list(%s.values())[M_k]", "next(iter(%s.values()))"]
                if U(e) == src0:
                    return True
                if isinstance(e, ast.IfExp):
                    # <one option> if isinstance(<container>, dict) else <container>   (or the inverted form)
                    t = e.test
                    neg = isinstance(t, ast.UnaryOp) and isinstance(t.op, ast.Not)
                    t = t.operand if neg else t
                    sel, plain = (e.orelse, e.body) if neg else (e.body, e.orelse)
                    if pm.match("isinstance(%s, dict)" % src0, t) is not None and U(plain) == src0 and any(
                            pm.match(p_ % src0, sel) is not None for p_ in opts):
                        return True
                    return False
                if not isinstance(e, ast.Name):
                    return False
                defs = [d for d in C.assigns_to(f.node, e.id) if isinstance(d, ast.Assign)]
                srcs = ("%s.port_pressure" % reg, e.id)
                return bool(defs) and any(U(d.value) == srcs[0] for d in defs) and all(
                    U(d.value) == srcs[0] or any(pm.match(p % x, d.value) is not None for x in srcs for p in (
                        "%s[M_k]", "list(%s.values())[M_k]", "next(iter(%s.values()))")) for d in defs)
            regside = [x for x in (b["M_a"], b["M_b"]) if is_reg_uops(x)]
            if len(regside) == 1:
                other = [U(x) for x in (b["M_a"], b["M_b"]) if x is not regside[0]]
                if len(other) == 1 and other[0].isidentifier():
                    ok2 = True
                    duops = other[0]
    need("port_uops = register form's micro-ops ++ data micro-ops", ok2, pu[0] if pu else None,
         "(found: %s)" % (U(pu[0].value)[:120] if pu else "no store"))
    # throughput
    tp = [n for n, b in pm.find("throughput = M_v", blk)]
    ok3 = False
    for n in tp:
        for pat in ("max(max(M_d), M_r)", "max(M_r, max(M_d))"):
            b = pm.match(pat, n.value)
            if b is None:
                continue
            r_or = origins(b["M_r"])
            if any("%s.throughput" % reg in t for t in r_or) and isinstance(b["M_d"], ast.Name):
                ok3 = ok and b["M_d"].id == dpp_name if ok else True
    need("throughput = max(busiest data port, register form's throughput)", ok3, tp[0] if tp else None,
         "(found: %s)" % (U(tp[0].value) if tp else "none"))
    # latency: starts from reg latency, += load latency(reg_type) under HAS_LD, += store latency under HAS_ST
    lat0 = [n for n in ast.walk(blk) if isinstance(n, ast.Assign) and U(n.targets[0]) == "latency"]
    ok4 = bool(lat0) and all(any("%s.latency" % reg in t for t in origins(n.value)) for n in lat0) and all(
        isinstance(n.value, (ast.Name, ast.Attribute)) for n in lat0)
    need("latency starts from the register form's latency", ok4, lat0[0] if lat0 else None)
    adds = [n for n in ast.walk(blk) if isinstance(n, ast.AugAssign) and U(n.target) == "latency"]
    kinds = set()
    for n in adds:
        if not isinstance(n.op, ast.Add):
            need("latency contributions are added", False, n, "(found `%s`)" % U(n))
            continue
        b = pm.match("self._machine_model.M_fn(reg_type) if M_flag in instruction_form.flags else 0", n.value)
        if b is None:
            need("latency addend has the form get_*_latency(reg_type) if <flag> in flags else 0", False, n,
                 "(found `%s`)" % U(n.value))
            continue
        kinds.add((b["M_fn"], U(b["M_flag"])))
    need("latency += load latency of the register type when the instruction loads",
         ("get_load_latency", "INSTR_FLAGS.HAS_LD") in kinds, adds[0] if adds else None,
         "(addends found: %s)" % sorted(kinds))
    need("latency += store latency of the register type when the instruction stores",
         ("get_store_latency", "INSTR_FLAGS.HAS_ST") in kinds, adds[0] if adds else None,
         "(addends found: %s)" % sorted(kinds))
    # latency_wo_load from reg latency only
    lw = [n for n in ast.walk(blk) if isinstance(n, ast.Assign) and U(n.targets[0]) == "latency_wo_load"]
    ok5 = len(lw) == 1 and isinstance(lw[0].value, (ast.Name, ast.Attribute)) and all(
        "%s.latency" % reg in t or t in ("0.0", "0") for t in origins(lw[0].value)) and U(lw[0].value) != "latency"
    need("latency_wo_load originates from the register form's latency only", ok5, lw[0] if lw else None,
         "(found: %s)" % (U(lw[0]) if lw else "none"))
    # reg_type from the entry operand at the substituted position
    rt = pm.find("reg_type = self._parser.get_reg_type(%s.operands[operands.index(self._create_reg_wildcard())])" % reg, blk)
    need("register type = type of the entry's operand at the substituted position", bool(rt))
    subst = pm.find("operands = self.substitute_mem_address(instruction_form.operands)", f.node)
    need("register form is looked up with the memory operand replaced by the register wildcard", bool(subst))
    # data-port vector: load part and store part
    ld = [n for n in ast.walk(blk) if isinstance(n, ast.If) and U(n.test) == "INSTR_FLAGS.HAS_LD in instruction_form.flags"]
    st = [n for n in ast.walk(blk) if isinstance(n, ast.If) and U(n.test) == "INSTR_FLAGS.HAS_ST in instruction_form.flags"]
    need("load micro-ops are added exactly when the instruction loads", len(ld) == 1)
    need("store micro-ops are added exactly when the instruction stores", len(st) == 1)
    if len(ld) == 1 and ok:
        l = ld[0]
        a = pm.find("%s = self._machine_model.average_port_pressure(M_u)" % dpp_name, l)
        need("data-port vector (load) = average of the selected load micro-ops", bool(a) and (
            duops is None or not duops.isidentifier() or U(a[0][1]["M_u"]) == duops), l)
        g = pm.find("M_p = self._machine_model.get_load_throughput(M_m)", l)
        need("load micro-ops come from get_load_throughput(memory source operand)", bool(g) and all(
            r in U(g[0][1]["M_m"]) for r in ("source", "src_dst", "MemoryOperand")), l)
        mul = pm.find('%s = [M_x * M_m for M_x in %s]' % (dpp_name, dpp_name), l)
        mg = [n for n in ast.walk(l) if isinstance(n, ast.If) and U(n.test) == "'load_throughput_multiplier' in self._machine_model"]
        need("load pressure is scaled only by the model's load_throughput_multiplier[register type]",
             len(mul) == 1 and len(mg) == 1 and C.in_subtree(mul[0][0], mg[0]) and any(
                 U(n.value) == "self._machine_model['load_throughput_multiplier'][reg_type]" for n in ast.walk(mg[0])
                 if isinstance(n, ast.Assign)), l)
    if len(st) == 1 and ok:
        s = st[0]
        zs = pm.find("%s = [sum(M_x) for M_x in zip(%s, M_s)]" % (dpp_name, dpp_name), s)
        need("store pressure is added element-wise to the data-port vector", len(zs) == 1, s)
        g = pm.find("M_p = self._machine_model.get_store_throughput(M_m, M_r)", s)
        need("store micro-ops come from get_store_throughput(memory destination operand, register type)",
             bool(g) and "MemoryOperand" in U(g[0][1]["M_m"]), s)
        if duops and duops.isidentifier():
            cat = pm.find_any(["%s = %s + M_s" % (duops, duops), "%s += M_s" % duops, "%s.extend(M_s)" % duops,
                               "%s = [*%s, *M_s]" % (duops, duops), "%s = list(chain(%s, M_s))" % (duops, duops),
                               "%s = list(%s) + list(M_s)" % (duops, duops)], s)
            other_def = [a_ for a_ in ast.walk(s) if isinstance(a_, (ast.Assign, ast.AugAssign)) and U(
                a_.targets[0] if isinstance(a_, ast.Assign) else a_.target) == duops]
            ctx.judge(len(cat) == 1, len(cat) == 1 or not other_def, "R1", "store micro-ops are appended to the data micro-ops", f.where(s),
                      "composition provenance broken: store micro-ops are appended to the data micro-ops", f.qname,
                      "store micro-ops are appended to the data micro-ops")
        mul = [n for n in ast.walk(s) if isinstance(n, ast.If) and U(n.test) == "'store_throughput_multiplier' in self._machine_model"]
        need("store pressure is scaled only by the model's store_throughput_multiplier[register type]", len(mul) == 1, s)


def _r2(ctx):
    ctx.rule("R2", "None-able entry fields are tested for None before arithmetic / max / +=")
    sites = 0
    for q in ("ArchSemantics.assign_tp_lt", "ArchSemantics._handle_instruction_found"):
        f = ctx.func(q)
        flow = C.flow_of(f)
        # entry variables
        entries = set()
        for n in ast.walk(f.node):
            if isinstance(n, ast.Assign) and isinstance(n.targets[0], ast.Name) and C.is_call_to(n.value, "get_instruction"):
                entries.add(n.targets[0].id)
        if q.endswith("_handle_instruction_found"):
            entries.add(f.params()[1])

        cfg = C.cfg_of(f)

        def none_guarded(name, at):
            """`name` is known not to be None when `at` is evaluated."""
            if name in C.nonnull_facts(C.facts_at(at)):
                return True
            for iff in [n for n in ast.walk(f.node) if isinstance(n, ast.If)]:
                t = C.is_none_test(iff.test)
                if t and t[0] == name and t[1] and not iff.orelse and cfg.dominates(iff, at) \
                        and not C.in_subtree(at, iff) and any(
                            isinstance(s, ast.Assign) and U(s.targets[0]) == name
                            and not (isinstance(s.value, ast.Constant) and s.value.value is None)
                            for s in iff.body):
                    return True
            return False

        def noneable(expr, at, depth=6, use_guards=True):
            """None-able entry fields `expr` may be a plain copy of when evaluated at `at`."""
            if isinstance(expr, ast.Attribute) and expr.attr in ("throughput", "latency") and isinstance(
                    expr.value, ast.Name) and expr.value.id in entries:
                return set() if use_guards and none_guarded(U(expr), at) else {U(expr)}
            if isinstance(expr, ast.Name) and depth > 0 and flow.is_local(expr.id):
                if use_guards and none_guarded(expr.id, at):
                    return set()
                out = set()
                try:
                    defs = flow.reaching(at, expr.id)
                except KeyError:
                    defs = flow.all_defs.get(expr.id, [])
                for d in defs:
                    if d.kind == "assign" and d.value is not None and not isinstance(d.stmt, str):
                        out |= noneable(d.value, d.stmt, depth - 1, use_guards)
                return out
            return set()

        def guarded(use, expr):
            return False

        for n in ast.walk(f.node):
            uses = []
            if isinstance(n, ast.BinOp) and isinstance(n.op, (ast.Add, ast.Sub, ast.Mult, ast.Div)):
                uses = [n.left, n.right]
            elif isinstance(n, ast.AugAssign):
                uses = [n.target, n.value]
            elif isinstance(n, ast.Call) and isinstance(n.func, ast.Name) and n.func.id in ("max", "min", "sum", "float", "round", "int"):
                uses = list(n.args)
            elif isinstance(n, ast.Compare) and any(isinstance(o, (ast.Lt, ast.Gt, ast.LtE, ast.GtE)) for o in n.ops):
                uses = [n.left] + n.comparators
            for u in uses:
                if not isinstance(u, (ast.Name, ast.Attribute)):
                    continue
                raw = noneable(u, n, use_guards=False)
                if not raw:
                    continue
                na = noneable(u, n)
                sites += 1
                if not na:
                    ctx.node_ok("R2", f, n, "use of %s (copy of %s) is preceded by a None test" % (U(u), sorted(raw)))
                else:
                    ctx.node_bad("R2", f, n, "%s may be None (it is a plain copy of %s, which the loader passes "
                                 "through as ~, and which %s guards with `is None` elsewhere) but is used here in "
                                 "arithmetic/max without a None test -> TypeError" % (
                                     U(u), sorted(na), "_handle_instruction_found"), instance="%s in `%s`" % (U(u), U(n)[:100]))
    ctx.floor("R2", "arithmetic uses of None-able entry fields", sites, 2)
    # the sibling that defines the discipline
    h = ctx.func("ArchSemantics._handle_instruction_found")
    for fld in ("throughput", "latency"):
        tests = [n for n in ast.walk(h.node) if isinstance(n, ast.If) and C.is_none_test(n.test)
                 and C.is_none_test(n.test)[1] and fld in C.is_none_test(n.test)[0]]
        good = any(any(isinstance(s, ast.Assign) and C.const_num(s.value) == 0 for s in t.body) for t in tests)
        ctx.check(good, "R2", "_handle_instruction_found maps a missing %s to 0 and flags it" % fld, h.where(),
                  "_handle_instruction_found no longer replaces a missing %s by 0.0" % fld, h.qname, "None -> 0 for " + fld)


def _r4(ctx, f):
    ctx.rule("R4", "unknown fall-back: zero pressure/latency/throughput, both unknown flags, only when neither form matched")
    unk = [n for n in ast.walk(f.node) if isinstance(n, ast.If) and U(n.test) == "assign_unknown"]
    if len(unk) != 1:
        ctx.broken("R4: `if assign_unknown:` not found")
    u = unk[0]
    body = [U(s) for s in u.body]
    ctx.check(any(C.is_zero_vector_assign(s, "instruction_form.port_pressure") and C.zero_vector(s.value) == "port_number"
                  for s in u.body), "R4", "zero pressure vector", f.where(u),
              "the unknown path does not set instruction_form.port_pressure to one zero per port", f.qname,
              "unknown path: zero pressure vector")
    want = {
        "throughput = 0.0": "throughput 0",
        "latency = 0.0": "latency 0",
    }
    for stmt, desc in want.items():
        ctx.check(any(b == stmt or b.replace("_", "i") == stmt.replace("_", "i") for b in body), "R4", desc,
                  f.where(u), "the unknown path does not set `%s`" % stmt, f.qname, "unknown path: " + desc)
    # `flags += [...]` / `flags.extend(...)` / `flags.append(...)` statements that bring in both flags (directly or via a constant)
    adders = [s for s in u.body if (isinstance(s, ast.AugAssign) and U(s.target) == "flags") or (
        isinstance(s, ast.Expr) and isinstance(s.value, ast.Call) and U(s.value.func) in ("flags.extend", "flags.append"))]
    flags_ok = all(any(C.mentions(ctx, f, s, w) for s in adders) for w in ("TP_UNKWN", "LT_UNKWN"))
    ctx.check(flags_ok, "R4", "both unknown flags are set", f.where(u),
              "the unknown path does not add both TP_UNKWN and LT_UNKWN", f.qname, "unknown path: flags")
    lw = [s for s in u.body if isinstance(s, ast.Assign) and U(s.targets[0]) == "latency_wo_load"]
    ctx.check(bool(lw) and U(lw[0].value) in ("latency", "0.0"), "R4", "latency_wo_load 0", f.where(u),
              "the unknown path leaves latency_wo_load unset", f.qname, "unknown path: latency_wo_load")
    sets = [n for n in ast.walk(f.node) if isinstance(n, ast.Assign) and U(n.targets[0]) == "assign_unknown"]
    trues = [n for n in sets if U(n.value) == "True"]
    falses = [n for n in sets if U(n.value) == "False"]
    ok = len(trues) == 1 and len(falses) == 1
    if ok:
        tfacts = [(U(e), p) for e, p in C.facts_at(trues[0])]
        ffacts = [(U(e), p) for e, p in C.facts_at(falses[0])]
        ok = ("instruction_data", False) in tfacts and any(p and t.startswith("instruction_data_reg") for t, p in ffacts)
    ctx.check(ok, "R4", "unknown exactly when neither the form nor its register form matched", f.where(u),
              "assign_unknown is not (True when no direct match) and (False only when the register form matched)",
              f.qname, "assign_unknown discipline")
    # writes go to the given instruction only
    bad = []
    for n in ast.walk(f.node):
        tg = []
        if isinstance(n, ast.Assign):
            tg = n.targets
        elif isinstance(n, ast.AugAssign):
            tg = [n.target]
        for t in tg:
            if isinstance(t, ast.Attribute) and U(t.value) not in ("instruction_form",):
                bad.append(n)
    ctx.check(not bad, "R4", "assign_tp_lt writes only the instruction it was given", f.where(),
              "assign_tp_lt stores into another object: %s" % [U(b)[:60] for b in bad], f.qname, "foreign attribute store")
    ctx.floor("R4", "attribute stores in assign_tp_lt", sum(
        1 for n in ast.walk(f.node) if isinstance(n, ast.Assign) and any(isinstance(t, ast.Attribute) for t in n.targets)), 8)


def _d1(ctx):
    ctx.rule("D1", "register types used by a model's entries are covered by its multiplier tables")
    for path, d in sorted(ctx.data.models().items()):
        if not isinstance(d, dict):
            continue
        rel = ctx.data.rel(path)
        isa = str(d.get("isa", "")).lower()
        types = set()
        for e in d.get("instruction_forms") or []:
            for o in (e.get("operands") or []) if isinstance(e, dict) else []:
                if isinstance(o, dict) and o.get("class") == "register":
                    if isa == "aarch64":
                        t = o.get("prefix")
                    else:
                        n = str(o.get("name"))
                        t = n if n in ("gpr", "mm", "xmm", "ymm", "zmm") else None
                    if t and t != "*":
                        types.add(t)
        for key in ("load_throughput_multiplier", "store_throughput_multiplier"):
            if key in d and isinstance(d[key], dict):
                miss = sorted(t for t in types if t not in d[key])
                ctx.check(not miss, "D1", "%s: %s covers %s" % (rel, key, sorted(types)), rel,
                          "%s has no row for register type(s) %s used by the model's entries: composing a memory "
                          "form of such a register form raises KeyError" % (key, miss), rel, key)
        ll = d.get("load_latency") if isinstance(d.get("load_latency"), dict) else {}
        miss = sorted(t for t in types if t not in ll)
        if miss:
            ctx.note("D1 (advisory): %s load_latency has no row for register type(s) %s that occur in entries; "
                     "only matters if a memory form is composed from such an entry" % (rel, miss))
        ctx.ok("D1", "%s: load_latency rows %s" % (rel, sorted(ll)), rel)


def _r5(ctx):
    """Contradiction rule: the role lists semantic_operands['source'|'destination'|'src_dst'] are lists everywhere (built as
    lists by ISASemantics, iterated / chained / indexed by every reader); a type test of the list itself against an operand
    class can never succeed, so the condition it sits in is constant."""
    ctx.rule("R5", "the operand role lists are never type-tested as if they were a single operand")
    roles = ("source", "destination", "src_dst")
    iterated = tested = 0
    for f in ctx.repo.all_funcs():
        if f.file.startswith("osaca/data/"):
            continue
        for n in ast.walk(f.node):
            if isinstance(n, ast.Subscript) and isinstance(n.slice, ast.Constant) and n.slice.value in roles \
                    and U(n.value).endswith("semantic_operands"):
                par = C.parent(n)
                if isinstance(par, ast.Call) and C.is_call_to(par, "isinstance") and par.args and par.args[0] is n:
                    tested += 1
                    cls = U(par.args[1]) if len(par.args) > 1 else "?"
                    if cls in ("list", "tuple", "(list, tuple)"):
                        continue
                    ctx.touch(f)
                    ctx.node_bad("R5", f, par, "`%s` tests the whole role list against %s: the list is never an operand, the test is "
                                 "constantly False (its negation constantly True), so the branch it guards is taken for every "
                                 "instruction - e.g. the store micro-ops of a composed store are dropped as if it were an indexed "
                                 "load" % (U(par), cls))
                elif isinstance(par, (ast.For, ast.comprehension)) or (isinstance(par, ast.BinOp) and isinstance(par.op, ast.Add)) \
                        or isinstance(par, ast.Call):
                    iterated += 1
    ctx.floor("R5", "uses of the role lists as lists", iterated, 10)
    ctx.ok("R5", "%d uses of the role lists as sequences, %d isinstance tests on them examined" % (iterated, tested), "")


def _d2(ctx):
    """Writer/reader agreement for the load/store tables: every field that a shipped row carries and that the addressing-mode
    matcher consults on the model side (i_mem.<field>) must be handed to the MemoryOperand the loader builds for that row."""
    ctx.rule("D2", "every field of a load/store table row that the addressing-mode matcher consults is carried over by the loader")
    init = ctx.func("MachineModel.__init__")
    consulted = {}
    for q in ("MachineModel._is_AArch64_mem_type", "MachineModel._is_x86_mem_type"):
        m = ctx.func(q)
        ip = m.params()[1]      # (self, i_mem, mem)
        consulted[q] = {n.attr for n in ast.walk(m.node) if isinstance(n, ast.Attribute) and isinstance(n.value, ast.Name) and n.value.id == ip}
    for table, role in (("load_throughput", "dst"), ("store_throughput", "src")):
        loops = [l for l in ast.walk(init.node) if isinstance(l, ast.For) and U(l.iter) == "self._data['%s']" % table]
        if len(loops) != 1:
            ctx.broken("D2: conversion loop over self._data['%s'] not found in MachineModel.__init__" % table)
        loop = loops[0]
        row = U(loop.target)
        mos = [c for c in ast.walk(loop) if isinstance(c, ast.Call) and pm.call_name(c) == "MemoryOperand"]
        if len(mos) != 1:
            ctx.broken("D2: MemoryOperand(...) construction for %s rows not found" % table)
        passed = {}
        for k in mos[0].keywords:
            reads = {n.slice.value for n in ast.walk(k.value) if isinstance(n, ast.Subscript) and U(n.value) == row
                     and isinstance(n.slice, ast.Constant)}
            reads |= {n.args[0].value for n in ast.walk(k.value) if isinstance(n, ast.Call) and isinstance(n.func, ast.Attribute)
                      and n.func.attr == "get" and U(n.func.value) == row and n.args and isinstance(n.args[0], ast.Constant)}
            passed[k.arg] = reads
        # fields present in the shipped rows, per ISA
        for isa, q in (("aarch64", "MachineModel._is_AArch64_mem_type"), ("x86", "MachineModel._is_x86_mem_type")):
            keys = {}
            for path, d in sorted(ctx.data.models().items()):
                if not isinstance(d, dict) or str(d.get("isa", "")).lower() != isa:
                    continue
                for r in d.get(table) or []:
                    if isinstance(r, dict):
                        for k in r:
                            keys.setdefault(k, ctx.data.rel(path))
            for k in sorted(keys):
                if k == "port_pressure":
                    continue
                if k not in consulted[q] and k != role:
                    ctx.ok("D2", "%s/%s: row field '%s' is not consulted by %s" % (isa, table, k, q.split(".")[1]), keys[k])
                    continue
                ok = k in passed and k in passed[k]
                ctx.check(ok, "D2", "%s/%s: row field '%s' -> MemoryOperand(%s=row['%s'])" % (isa, table, k, k, k), init.where(mos[0]),
                          "rows of %s carry the field '%s' (e.g. %s) and the matcher %s compares it, but the loader builds the row's "
                          "MemoryOperand without it (keywords: %s): every row then has the default value, rows that differ only in "
                          "'%s' become indistinguishable and the first one in file order is used for all of them" % (
                              table, k, keys[k], q.split(".")[1], sorted(passed), k), init.qname, "%s %s field %s" % (isa, table, k))


def run(ctx):
    C.require_locals(ctx, ctx.func('ArchSemantics.assign_tp_lt'), ['instruction_form', 'operands', 'reg_type', 'throughput', 'latency', 'latency_wo_load', 'assign_unknown', 'flags', 'port_number', 'instruction_data'])
    f = ctx.func(FN)
    blk, reg = _composed_block(ctx, f)
    _r1(ctx, f, blk, reg)
    _r2(ctx)
    ctx.rule("R3", "no in-place mutation of model storage while composing (ownership analysis)")
    eff = effects_of(ctx)
    only = {FN, "ArchSemantics._handle_instruction_found", "MachineModel.get_load_throughput",
            "MachineModel.get_store_throughput", "MachineModel.get_load_latency", "MachineModel.get_store_latency",
            "MachineModel.average_port_pressure", "MachineModel.get_instruction", "ISASemantics.substitute_mem_address",
            "MachineModel._check_operands", "MachineModel._match_mem_entries", "ArchSemantics.add_semantics",
            "ArchSemantics.set_hidden_loads", "ArchSemantics._nullify_data_ports"}
    n = mutation_findings(ctx, eff, "R3", only_funcs=only)
    ctx.ok("R3", "%d in-place mutation site(s) on the composition path examined" % n, f.where())
    for q, want in (("MachineModel.get_load_throughput", 1), ("MachineModel.get_store_throughput", 1)):
        s = eff.summ[q]
        ctx.check(s.ret.d >= want, "R3", "%s hands out at most the rows by reference (depth >= %d)" % (q, want),
                  ctx.repo.func(q).where(), "%s returns the model's table itself" % q, q, "summary " + q)
    _r4(ctx, f)
    _r5(ctx)
    _d1(ctx)
    _d2(ctx)
    # R6: which register form is found, and whether the form counts as load / store / both, is decided by look-ups that
    # are retried without the mnemonic suffix - with the register-wildcard operands in every slot (shared with C07-R4)
    from . import c07
    c07._r4(ctx, rule="R6", funcs=("ArchSemantics.assign_tp_lt", "ISASemantics.assign_src_dst"), floor=4)
