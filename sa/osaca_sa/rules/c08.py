"""C08 - memory-operand forms compose register-form data with load/store data."""
import ast
import os
import re

from .. import pm
from ..pm import U
from . import common as C
from .c18 import effects_of, mutation_findings

TECHNIQUE = (
    'static analysis: provenance patterns (origin expression + combining operator) on the composition path of assign_tp_lt; None-discipline contradiction check via reaching definitions and guard facts; ownership analysis (no in-place mutation of model tables); data cross-reference of register types against multiplier tables ; container-vs-element contradiction check on the role lists; field agreement between shipped table rows, loader and matcher'
)
EXPLANATION = (
    "R1: on the composed path of ArchSemantics.assign_tp_lt port_pressure is the element-wise sum of the data-port vector and the register form's average, port_uops the concatenation of both micro-op lists, latency = register latency + load (+ store) latency of the register type at the substituted position, latency_wo_load originates from the register latency only, throughput = max(busiest data port, register throughput); the data-port vector is the (multiplier-scaled) average of the selected load/store micro-ops. R2: throughput/latency of a model entry are None-able (the loader passes ~ through; _handle_instruction_found guards both); every arithmetic/max/+= use of such a value in the semantics classes is dominated by a None test. R3: no in-place mutation of model storage while composing (the C18 ownership analysis restricted to the composition path). R4: the unknown path sets zero pressure/latency/throughput and both unknown flags, is taken exactly when neither form matched, and assign_tp_lt writes only the instruction it was given. D1: register types used by a model's entries are covered by its multiplier tables. R5 (contradiction): the operand role lists semantic_operands[...] are lists at every other use; an isinstance test of the list itself against an operand class is constant. D2 (writer/reader agreement): every field that a shipped load/store table row carries and that the addressing-mode matcher compares on the model side is handed to the MemoryOperand the loader builds for the row. R6: the look-ups that find the register form (assign_tp_lt) and its operand roles (assign_src_dst, from which HAS_LD/HAS_ST and so the load/store part of the composition follow) are each followed on their miss path by both suffix fall-backs with the same operand list - the register-wildcard operands - in every slot (rule shared with C07-R4)."
)
NOT_DECIDED = "Recomputation of the composed numbers over generated models (behavioural)."
ASSUMPTIONS = [
    "MachineModel.get_instruction returns None or an entry whose throughput/latency may be None (C15-D1 schema)",
]

FN = "ArchSemantics.assign_tp_lt"


def _composed_block(ctx, f):
    """The `if instruction_data_reg:` block (register form found) of assign_tp_lt."""
    flow = C.flow_of(f)
    regvars = set()
    for n in ast.walk(f.node):
        if isinstance(n, ast.Assign) and isinstance(n.targets[0], ast.Name):
            # bound from a model look-up, directly or through locals (a look-up helper expanded in place)
            if C.is_call_to(n.value, "get_instruction") or any(
                    isinstance(x, ast.AST) and C.is_call_to(x, "get_instruction") for x in flow.expand(n.value)):
                regvars.add(n.targets[0].id)
    # the block that composes: entered when the register form was found, and reading the load / store tables
    blocks = [n for n in ast.walk(f.node) if isinstance(n, ast.If) and isinstance(n.test, ast.Name) and n.test.id in regvars
              and any(isinstance(c, ast.Call) and pm.call_name(c).endswith(("get_load_throughput", "get_store_throughput"))
                      for st in n.body for c in ast.walk(st))]
    if len(blocks) != 1:
        ctx.broken("R1: the `if <register form>:` block that composes the register form with the load / store rows was not found in %s" % FN)
    return blocks[0], blocks[0].test.id


def _r1(ctx, f, blk, reg, with_latency=True):
    ctx.rule("R1", "composition provenance: sum / concatenation / latency sum / max")
    flow = C.flow_of(f)

    def origins(name_or_expr):
        e = name_or_expr
        return flow.origin_text(e)

    def need(desc, ok, node=None, detail=""):
        ctx.check(ok, "R1", desc, f.where(node if node is not None else blk),
                  "composition provenance broken: %s %s" % (desc, detail), f.qname, desc)

    pp = [n for n, b in pm.find("instruction_form.port_pressure = M_v", blk)]
    pu = [n for n, b in pm.find("instruction_form.port_uops = M_v", blk)]
    need("the composed form stores its port pressure", bool(pp))
    need("the composed form stores its micro-ops", bool(pu))
    # ---- the composed pressure vector and micro-op list as symbolic sums / concatenations of their sources ----------
    # (followed through locals, helpers that were expanded in place, conditional scaling; what is not one of the known
    # vector / list operations is "not understood", never a violation)
    UNK = None
    model = "self._machine_model"
    cfg = C.cfg_of(f)

    def is_reg_src(e):
        return ("%s.port_pressure" % reg) in U(e)

    def leaf(e, at):
        return ("SRC", getattr(cfg.node_of(at), "lineno", 0) if not isinstance(cfg.node_of(at), str) else 0, U(e)[:80])

    def kind_of(e, at, depth=0, seen=None):
        """LOAD / STORE / REG / ? - which table the micro-ops `e` were taken from (through locals)"""
        seen = seen if seen is not None else set()
        out = set()
        for x in ast.walk(e):
            if isinstance(x, ast.Call) and pm.call_name(x).endswith("get_load_throughput"):
                out.add("LOAD")
            if isinstance(x, ast.Call) and pm.call_name(x).endswith("get_store_throughput"):
                out.add("STORE")
            if isinstance(x, ast.Attribute) and U(x) == "%s.port_pressure" % reg:
                out.add("REG")
            if isinstance(x, ast.Name) and isinstance(x.ctx, ast.Load) and flow.is_local(x.id) and depth < 8:
                try:
                    ds = flow.reaching(at, x.id)
                except KeyError:
                    ds = []
                for d in ds:
                    if id(d) in seen or d.value is None:
                        continue
                    seen.add(id(d))
                    out |= kind_of(d.value, d.stmt, depth + 1, seen)
        return out

    def seq(e, at, depth=0):
        """alternatives of the micro-op list `e`: each a tuple of leaf sources"""
        if depth > 60:
            return UNK
        if isinstance(e, ast.List) and not e.elts:
            return [()]
        if isinstance(e, ast.List) and all(isinstance(x, ast.Starred) for x in e.elts):
            parts = [seq(x.value, at, depth + 1) for x in e.elts]
        elif isinstance(e, ast.BinOp) and isinstance(e.op, ast.Add):
            parts = [seq(e.left, at, depth + 1), seq(e.right, at, depth + 1)]
        elif isinstance(e, ast.Call) and pm.call_name(e) == "list" and len(e.args) == 1 and C.is_call_to(e.args[0], "chain"):
            parts = [seq(x, at, depth + 1) for x in e.args[0].args]
        elif isinstance(e, ast.Call) and pm.call_name(e) in ("list", "copy.copy", "copy.deepcopy", "deepcopy", "copy") and len(e.args) == 1:
            return seq(e.args[0], at, depth + 1)
        elif is_reg_src(e) and not (isinstance(e, ast.Name)):
            return [(("REG",),)]
        elif isinstance(e, ast.Name) and flow.is_local(e.id):
            try:
                ds = flow.reaching(at, e.id)
            except KeyError:
                return UNK
            out = []
            for d in ds:
                if d.kind == "assign" and d.value is not None:
                    r = seq(d.value, d.stmt, depth + 1)
                elif d.kind == "aug" and isinstance(d.stmt.op, ast.Add):
                    l_, r_ = seq(ast.Name(id=e.id, ctx=ast.Load()), d.stmt, depth + 1), seq(d.value, d.stmt, depth + 1)
                    r = UNK if l_ is UNK or r_ is UNK else [x + y for x in l_ for y in r_]
                else:
                    r = UNK
                if r is UNK:
                    return UNK
                out.extend(r)
            return out[:256]
        else:
            return [((leaf(e, at)),)] if True else UNK
        if any(p is UNK for p in parts):
            return UNK
        out = [()]
        for p in parts:
            out = [x + y for x in out for y in p][:256]
        return out

    def _key_of(r):
        b_ = pm.match("%s[M_k][M_t]" % model, r)
        if b_ is not None:
            from .. import consteval
            try:
                kv = consteval.ev(b_["M_k"], {})        # the key: a constant, or constants put together ('load' + '_throughput_multiplier')
            except (consteval.Unsupported, consteval.Raised):
                return None
            if isinstance(kv, str):
                return kv, U(b_["M_t"])
        return None

    def mult_alts(m, at):
        """the factors `m` can stand for: [(key, register type expression, statement that reads it) | None for 1.0], or UNK"""
        if isinstance(m, ast.Name):
            try:
                ds = flow.reaching(at, m.id)
            except KeyError:
                return UNK
            out = []
            for d in ds:
                if d.kind != "assign" or d.value is None:
                    return UNK
                if C.const_num(d.value) == 1:
                    out.append(None)
                    continue
                k = _key_of(d.value)
                if k is None:
                    return UNK
                out.append((k[0], k[1], d.stmt))
            return out or UNK
        if C.const_num(m) == 1:
            return [None]
        k = _key_of(m)
        return UNK if k is None else [(k[0], k[1], at)]

    scalings = []       # (statement, key, register-type expression)
    why_unk = []

    def _unk(e):
        why_unk.append(U(e)[:100])
        return UNK

    def vec(e, at, depth=0):
        """alternatives of the pressure vector `e`: each a tuple of (leaf source, scales)"""
        if depth > 60:
            return _unk(e)
        if C.zero_vector(e) is not None:
            return [()]
        if isinstance(e, ast.Call) and pm.call_name(e).endswith("average_port_pressure") and len(e.args) == 1:
            srcs = seq(e.args[0], at, depth + 1)
            if srcs is UNK:
                return _unk(e)
            # (the average over a concatenation is the sum of the averages; over no micro-ops it is the zero vector)
            return [tuple((x, ()) for x in a_) for a_ in srcs]
        if isinstance(e, ast.ListComp) and len(e.generators) == 1 and not e.generators[0].ifs:
            g = e.generators[0]
            if isinstance(g.target, ast.Name) and isinstance(e.elt, ast.BinOp) and isinstance(e.elt.op, ast.Mult):
                sides = [e.elt.left, e.elt.right]
                var = [x for x in sides if isinstance(x, ast.Name) and x.id == g.target.id]
                other = [x for x in sides if x not in var]
                if len(var) == 1 and len(other) == 1:
                    ks = mult_alts(other[0], at)
                    base = vec(g.iter, at, depth + 1)
                    if ks is UNK or base is UNK:
                        return _unk(e)
                    out = []
                    for k in ks:
                        if k is None:
                            out.extend(base)
                        else:
                            scalings.append((k[2], k[0], k[1]))
                            out.extend(tuple((s_, sc + (k[0],)) for s_, sc in alt) for alt in base)
                    return out[:256]
            if C.is_call_to(g.iter, "zip") and len(g.iter.args) == 2:
                summed = (isinstance(e.elt, ast.Call) and pm.call_name(e.elt) == "sum" and isinstance(g.target, ast.Name)
                          and U(e.elt.args[0]) == g.target.id) or (
                    isinstance(g.target, ast.Tuple) and len(g.target.elts) == 2 and isinstance(e.elt, ast.BinOp)
                    and isinstance(e.elt.op, ast.Add) and {U(e.elt.left), U(e.elt.right)} == {U(t) for t in g.target.elts})
                if summed:
                    a_, b_ = vec(g.iter.args[0], at, depth + 1), vec(g.iter.args[1], at, depth + 1)
                    if a_ is UNK or b_ is UNK:
                        return _unk(e)
                    return [x + y for x in a_ for y in b_][:256]
            return _unk(e)
        if pm.match("list(map(sum, zip(M_a, M_b)))", e) is not None:
            m_ = pm.match("list(map(sum, zip(M_a, M_b)))", e)
            a_, b_ = vec(m_["M_a"], at, depth + 1), vec(m_["M_b"], at, depth + 1)
            return _unk(e) if a_ is UNK or b_ is UNK else [x + y for x in a_ for y in b_][:256]
        if isinstance(e, ast.Name) and flow.is_local(e.id):
            try:
                ds = flow.reaching(at, e.id)
            except KeyError:
                return _unk(e)
            out = []
            for d in ds:
                if d.kind != "assign" or d.value is None:
                    why_unk.append("definition of %s by %s at line %s" % (e.id, d.kind, getattr(d.stmt, "lineno", "?")))
                    return UNK
                r = vec(d.value, d.stmt, depth + 1)
                if r is UNK:
                    return _unk(e)
                # element-wise accumulation in place between the definition and the use: `for i, v in enumerate(B): A[i] += v`
                for lp_, b_expr in elementwise_adds(e.id):
                    if lp_ is at or not (cfg.reachable(d.stmt, lp_) and cfg.reachable(lp_, at)):
                        continue
                    b_ = vec(b_expr, lp_, depth + 1)
                    if b_ is UNK:
                        return _unk(e)
                    added = [x + y for x in r for y in b_][:256]
                    r = (r + added) if cfg.reachable(d.stmt, at, avoid=[lp_]) else added
                out.extend(r)
            return out[:256]
        return _unk(e)

    _ew_cache = {}

    def elementwise_adds(name):
        """[(loop, B)] for loops that add the vector B onto the local `name` element by element"""
        if name in _ew_cache:
            return _ew_cache[name]
        res = []
        for lp_ in ast.walk(f.node):
            if not (isinstance(lp_, ast.For) and len(lp_.body) == 1 and not lp_.orelse):
                continue
            st_ = lp_.body[0]
            i_, v_, b_expr = None, None, None
            if isinstance(lp_.target, ast.Tuple) and len(lp_.target.elts) == 2 and C.is_call_to(lp_.iter, "enumerate") and len(lp_.iter.args) == 1 \
                    and all(isinstance(t_, ast.Name) for t_ in lp_.target.elts):
                i_, v_, b_expr = lp_.target.elts[0].id, lp_.target.elts[1].id, lp_.iter.args[0]
            elif isinstance(lp_.target, ast.Name) and pm.match("range(len(M_b))", lp_.iter) is not None:
                i_ = lp_.target.id
                b_expr = pm.match("range(len(M_b))", lp_.iter)["M_b"]
                v_ = "%s[%s]" % (U(b_expr), i_)
            if i_ is None:
                continue
            slot = "%s[%s]" % (name, i_)
            ok_ = False
            if isinstance(st_, ast.AugAssign) and isinstance(st_.op, ast.Add) and U(st_.target) == slot and U(st_.value) == v_:
                ok_ = True
            elif isinstance(st_, ast.Assign) and len(st_.targets) == 1 and U(st_.targets[0]) == slot:
                val = st_.value
                if isinstance(val, ast.BinOp) and isinstance(val.op, ast.Add) and {U(val.left), U(val.right)} == {slot, v_}:
                    ok_ = True
                elif C.is_call_to(val, "sum") and len(val.args) == 1 and isinstance(val.args[0], (ast.Tuple, ast.List)) \
                        and sorted(U(x_) for x_ in val.args[0].elts) == sorted([slot, v_]):
                    ok_ = True
            if ok_ and (b_expr is not None) and U(b_expr) != name:
                res.append((lp_, b_expr))
        _ew_cache[name] = res
        return res

    kinds_cache = {}

    def leaf_kind(src):
        """REG / LOAD / STORE / MIX / ? - the table a leaf source of micro-ops was read from"""
        if src == ("REG",):
            return "REG"
        if src not in kinds_cache:
            st_ = [x for x in ast.walk(f.node) if isinstance(x, ast.stmt) and getattr(x, "lineno", None) == src[1] and src[2] in U(x)]
            ks = set()
            for x in st_:
                val = getattr(x, "value", None)
                if val is not None:
                    ks |= kind_of(val, x)
            kinds_cache[src] = ks
        ks = kinds_cache[src]
        return next(iter(ks)) if len(ks) == 1 else ("MIX" if ks else "?")

    valts = UNK
    if pp and pu:
        valts = vec(pp[0].value, pp[0])
        ualts = seq(pu[0].value, pu[0])
        inst = "composed pressure vector / micro-op list"
        if valts is UNK or ualts is UNK:
            ctx.unknown("R1", inst, f.where(pp[0]), "the composed %s is not built from the known vector / list operations%s" % (
                "pressure vector" if valts is UNK else "micro-op list", (" (at `%s`)" % why_unk[0]) if why_unk else ""))
        else:
            allowed = {"REG": (), "LOAD": ("load_throughput_multiplier",), "STORE": ("store_throughput_multiplier",)}
            bad_terms, unk_terms = [], []
            for alt in valts:
                ks = [leaf_kind(s_) for s_, _ in alt]
                for (s_, sc), k in zip(alt, ks):
                    if k in ("?", "MIX"):
                        unk_terms.append((s_, sc))
                    elif k == "REG" and sc:
                        bad_terms.append(("the register form's pressure is scaled by %s" % list(sc), alt))
                    elif k in allowed and any(x not in allowed[k] for x in sc) or len(sc) > 1:
                        bad_terms.append(("the %s part is scaled by %s" % (k.lower(), list(sc)), alt))
                if ks.count("REG") != 1 and not unk_terms:
                    bad_terms.append(("the register form's pressure occurs %d times" % ks.count("REG"), alt))
                for k in ("LOAD", "STORE"):
                    if ks.count(k) > 1:
                        bad_terms.append(("%s micro-ops are counted %d times" % (k.lower(), ks.count(k)), alt))
            if unk_terms:
                ctx.unknown("R1", inst, f.where(pp[0]), "a term of the pressure sum has a source that is neither the register form nor "
                            "the load / store table: %s" % (unk_terms[0],))
            for why_, alt in bad_terms[:3]:
                ctx.bad("R1", "composed pressure = reg + m_load*load + m_store*store", f.where(pp[0]),
                        "composition provenance broken: %s (one path builds the vector from %s)" % (
                            why_, [(leaf_kind(s_), list(sc)) for s_, sc in alt]), f.qname, "composed pressure terms: " + why_)
            if not bad_terms and not unk_terms:
                ctx.ok("R1", "composed pressure = reg + [m_load*]load + [m_store*]store on every path (%d alternatives)" % len(valts), f.where(pp[0]))
            # the pressure is computed from exactly the micro-ops that are kept
            canon_src = lambda s_: ("REG",) if leaf_kind(s_) == "REG" else s_
            vsets = {tuple(sorted(canon_src(s_) for s_, _ in alt)) for alt in valts}
            usets = {tuple(sorted(canon_src(x) for x in alt)) for alt in ualts}
            if not unk_terms:
                only_p, only_u = sorted(vsets - usets), sorted(usets - vsets)
                ctx.check(not only_p and not only_u, "R1", "pressure is averaged over exactly the micro-ops stored in port_uops", f.where(pu[0]),
                          "composition provenance broken: the pressure vector is computed from micro-ops %s while port_uops keeps %s: "
                          "pressure lies on ports no stored micro-op may use (or stored micro-ops carry no pressure)" % (
                              [[x[2] if len(x) > 2 else x[0] for x in a_] for a_ in only_p][:2],
                              [[x[2] if len(x) > 2 else x[0] for x in a_] for a_ in only_u][:2]), f.qname,
                          "pressure sources = kept micro-ops")
            # every scaling step sits under "the model defines that multiplier" and uses the register type of the entry
            for st_, key_, rt_ in scalings:
                guarded = C.holds_at(st_, "'%s' in %s" % (key_, model))
                if not guarded:
                    from .. import consteval
                    for e_, pol_ in C.norm_fact_nodes(st_):
                        if pol_ and isinstance(e_, ast.Compare) and isinstance(e_.ops[0], ast.In) and U(e_.comparators[0]) == model:
                            try:
                                guarded = guarded or consteval.ev(e_.left, {}) == key_
                            except (consteval.Unsupported, consteval.Raised):
                                pass
                ctx.check(guarded and rt_ == "reg_type", "R1", "scaling by %s[reg_type] only when the model defines it" % key_, f.where(st_),
                          "composition provenance broken: the %s scaling is %s" % (key_, "not guarded by `'%s' in model`" % key_ if not guarded
                                                                                    else "indexed by %s" % rt_), f.qname, "scaling guard " + key_)
    # ---- throughput = max(busiest data port, register form's throughput) ------------------------------------------------
    if with_latency:
        tps = [n for n in ast.walk(blk) if isinstance(n, ast.Assign) and U(n.targets[0]) == "throughput"]
        ok3, rec3 = False, False
        for n in tps:
            v = n.value
            if isinstance(v, ast.Call) and pm.call_name(v) in ("max", "min") and len(v.args) == 2:
                inner = [x for x in v.args if isinstance(x, ast.Call) and pm.call_name(x) in ("max", "min", "sum") and len(x.args) == 1]
                other = [x for x in v.args if x not in inner]
                if len(inner) == 1 and len(other) == 1:
                    dv = vec(inner[0].args[0], n)
                    rec3 = dv is not UNK and valts is not UNK
                    if pm.call_name(v) != "max" or pm.call_name(inner[0]) != "max":
                        ok3 = False
                        continue
                    data_ok = dv is not UNK and pp and valts is not UNK and {tuple(sorted(map(repr, alt))) for alt in dv} == {
                        tuple(sorted(repr(t_) for t_ in alt if leaf_kind(t_[0]) != "REG")) for alt in valts}
                    r_or = origins(other[0])
                    ok3 = bool(data_ok) and any("%s.throughput" % reg in t for t in r_or)
                    if os.environ.get("OSACA_SA_DEBUG"):
                        print("DBG tp", dv if dv is UNK else sorted({tuple(sorted(map(repr, alt))) for alt in dv}), "\nVS", valts is UNK or sorted({
                            tuple(sorted(repr(t_) for t_ in alt if leaf_kind(t_[0]) != "REG")) for alt in valts}), r_or)
                elif not inner and pm.call_name(v) == "max":
                    # the busiest data port held in a scalar local: judged by how that scalar is formed - the maximum over the
                    # SUMMED data-port vector, or (wrong) the larger of the maxima of its parts
                    for cand in v.args:
                        if not (isinstance(cand, ast.Name) and flow.is_local(cand.id)):
                            continue
                        try:
                            ds_ = flow.reaching(n, cand.id)
                        except KeyError:
                            continue
                        parts_max = [d_ for d_ in ds_ if d_.kind == "assign" and d_.value is not None and isinstance(d_.value, ast.Call)
                                     and pm.call_name(d_.value) == "max" and len(d_.value.args) == 2
                                     and any(isinstance(a_, ast.Name) and a_.id == cand.id for a_ in d_.value.args)
                                     and any(isinstance(a_, ast.Call) and pm.call_name(a_) == "max" and len(a_.args) == 1 for a_ in d_.value.args)]
                        if parts_max:
                            rec3 = True
                            ok3 = False
                            ctx.node_bad("R1", f, parts_max[0].stmt, "`%s` keeps the larger of the busiest load port and the busiest store port; the "
                                         "composed form's pressure is the SUM of the two vectors, so when loads and stores share their busiest "
                                         "port (zen3 / zen4 read-modify-write forms) the reported throughput is too small" % U(parts_max[0].stmt)[:100],
                                         instance="throughput = max(busiest data port, register form's throughput)")
                            tp_reported = True
                            break
        if not locals().get("tp_reported"):
          ctx.judge(ok3, rec3 or not tps, "R1", "throughput = max(busiest data port, register form's throughput)", f.where(tps[0]) if tps else f.where(blk),
                    "composition provenance broken: throughput = max(busiest data port, register form's throughput) (found: %s)" % (
                        U(tps[0].value)[:120] if tps else "none"), f.qname, "throughput = max(busiest data port, register form's throughput)")
        # ---- latency = register form's latency [+ load latency(reg type) when it loads] [+ store latency when it stores] ----
        def flag_of(e):
            m_ = pm.match("M_f in instruction_form.flags", e)
            return U(m_["M_f"]).split(".")[-1] if m_ is not None else None

        def scal(e, at, guards=frozenset(), depth=0):
            """alternatives of a latency value: tuples of (term, flags it is conditioned on)"""
            if depth > 40:
                return UNK
            if C.const_num(e) == 0:
                return [()]
            if isinstance(e, ast.Attribute) and U(e) == "%s.latency" % reg:
                return [(("REG", frozenset()),)]
            if isinstance(e, ast.Call) and pm.call_name(e).endswith(("get_load_latency", "get_store_latency")) and len(e.args) == 1 \
                    and U(flow.subst(e.args[0]) if isinstance(e.args[0], ast.Name) and False else e.args[0]) == "reg_type":
                here = {flag_of(x) for x, pol in C.norm_fact_nodes(at) if pol and flag_of(x)}
                return [((("LD" if "load" in pm.call_name(e) else "ST"), frozenset(guards | here)),)]
            if isinstance(e, ast.IfExp):
                fl = flag_of(e.test)
                for yes, no in ((e.body, e.orelse), (e.orelse, e.body)):
                    if C.const_num(no) == 0 and fl is not None and yes is e.body:
                        r = scal(yes, at, guards | {fl}, depth + 1)
                        return UNK if r is UNK else r + [()]
                a_, b_ = scal(e.body, at, guards, depth + 1), scal(e.orelse, at, guards, depth + 1)
                return UNK if a_ is UNK or b_ is UNK else a_ + b_
            if isinstance(e, ast.BinOp) and isinstance(e.op, ast.Add):
                a_, b_ = scal(e.left, at, guards, depth + 1), scal(e.right, at, guards, depth + 1)
                return UNK if a_ is UNK or b_ is UNK else [x + y for x in a_ for y in b_][:128]
            if isinstance(e, ast.Name) and flow.is_local(e.id):
                try:
                    ds = flow.reaching(at, e.id)
                except KeyError:
                    return UNK
                out = []
                for d in ds:
                    if d.kind == "assign" and d.value is not None and C.const_num(d.value) == 0 and C.holds_at(d.stmt, "%s is None" % e.id):
                        # `x = 0.0` where x is None: the same quantity with "unknown" read as 0 - follow what x was
                        r = scal(ast.Name(id=e.id, ctx=ast.Load()), d.stmt, guards, depth + 1)
                    elif d.kind == "assign" and d.value is not None and C.const_num(d.value) == 0 and C.holds_at(
                            d.stmt, "%s.latency is None" % reg):
                        # `x = 0.0` on the path where the register form's latency is None: that latency, "unknown" read as 0
                        r = [(("REG", frozenset()),)]
                    elif d.kind == "assign" and d.value is not None:
                        r = scal(d.value, d.stmt, guards, depth + 1)
                    elif d.kind == "aug" and isinstance(d.stmt.op, ast.Add):
                        l_, r_ = scal(ast.Name(id=e.id, ctx=ast.Load()), d.stmt, guards, depth + 1), scal(d.value, d.stmt, guards, depth + 1)
                        r = UNK if l_ is UNK or r_ is UNK else [x + y for x in l_ for y in r_][:128]
                    else:
                        r = UNK
                    if r is UNK:
                        return UNK
                    out.extend(r)
                return out[:128]
            return UNK

        def final_alts(name):
            """alternatives of `name` where the block is left: over its definitions in the block that no other one follows"""
            defs_ = [n for n in ast.walk(blk) if (isinstance(n, ast.Assign) and any(U(t_) == name for t_ in n.targets)) or (
                isinstance(n, ast.AugAssign) and U(n.target) == name)]
            last = [d for d in defs_ if not any(o is not d and cfg.reachable(d, o, within=None) and C.in_subtree(o, blk) for o in defs_)]
            out = []
            for d in last:
                if isinstance(d, ast.Assign):
                    r = scal(d.value, d)
                else:
                    l_, r_ = scal(ast.Name(id=name, ctx=ast.Load()), d), scal(d.value, d)
                    r = UNK if l_ is UNK or r_ is UNK or not isinstance(d.op, ast.Add) else [x + y for x in l_ for y in r_]
                if r is UNK:
                    return UNK, defs_
                out.extend(r)
            return out, defs_

        lalts, ldefs = final_alts("latency")
        inst_l = "latency = register form [+ load latency when loading] [+ store latency when storing]"
        if lalts is UNK or not ldefs:
            ctx.unknown("R1", inst_l, f.where(ldefs[0]) if ldefs else f.where(blk), "the composed latency is not a sum of the known terms")
        else:
            bad = None
            seen_terms = set()
            for alt in lalts:
                ks = [t for t, _ in alt]
                seen_terms |= set(ks)
                if ks.count("REG") != 1:
                    bad = "the register form's latency occurs %d times in %s" % (ks.count("REG"), ks)
                for t, fl in alt:
                    if t == "LD" and "HAS_LD" not in fl:
                        bad = "the load latency is added without testing HAS_LD"
                    if t == "ST" and "HAS_ST" not in fl:
                        bad = "the store latency is added without testing HAS_ST"
                if ks.count("LD") > 1 or ks.count("ST") > 1:
                    bad = "a load / store latency is added twice (%s)" % ks
            if bad is None and "LD" not in seen_terms:
                bad = "no path adds the load latency of the register type"
            if bad is None and "ST" not in seen_terms:
                bad = "no path adds the store latency of the register type"
            ctx.check(bad is None, "R1", inst_l, f.where(ldefs[0]), "composition provenance broken: %s" % bad, f.qname, "composed latency terms")
        walts, wdefs = final_alts("latency_wo_load")
        if not wdefs:
            ctx.unknown("R1", "latency_wo_load of the composed form", f.where(blk), "no definition of latency_wo_load in the composing block")
        elif walts is UNK:
            ctx.unknown("R1", "latency_wo_load of the composed form", f.where(wdefs[0]), "not a sum of the known terms")
        else:
            okw = all([t for t, _ in alt] in (["REG"], []) for alt in walts) and any(alt for alt in walts)
            ctx.check(okw, "R1", "latency_wo_load originates from the register form's latency only", f.where(wdefs[0]),
                      "composition provenance broken: latency_wo_load originates from the register form's latency only (found terms: %s)" % (
                          [[t for t, _ in alt] for alt in walts][:3]), f.qname, "latency_wo_load originates from the register form's latency only")
        # ---- register type and wildcard look-up ---------------------------------------------------------------------------
        rts = [n for n in ast.walk(blk) if isinstance(n, ast.Assign) and U(n.targets[0]) == "reg_type"]
        got_rt, rt_ok = [], bool(rts)
        reg_origin = set(flow.origin_text(ast.Name(id=reg, ctx=ast.Load()))) if False else None
        for n in rts:
            got_rt.append(U(n.value)[:160])
            m_ = pm.match("self._parser.get_reg_type(M_r.operands[M_i])", n.value)
            same_entry = m_ is not None and (U(m_["M_r"]) == reg or (isinstance(m_["M_r"], ast.Name) and set(
                flow.origin_text(m_["M_r"])) & set(flow.origin_text([x for x in ast.walk(blk.test) if isinstance(x, ast.Name)][0]))))
            rt_ok = rt_ok and m_ is not None and bool(same_entry) and \
                U(flow.subst(m_["M_i"])) == "self.substitute_mem_address(instruction_form.operands).index(self._create_reg_wildcard())"
        ctx.judge(rt_ok, bool(rts), "R1", "register type = type of the entry's operand at the substituted position",
                  f.where(rts[0]) if rts else f.where(blk), "composition provenance broken: register type = type of the entry's operand at the substituted "
                  "position (found %s)" % got_rt[:1], f.qname, "register type = type of the entry's operand at the substituted position")
        looks = [c for c in ast.walk(f.node) if isinstance(c, ast.Call) and pm.call_name(c).endswith("get_instruction") and len(c.args) == 2
                 and any(U(flow.subst(c.args[1])) == "self.substitute_mem_address(instruction_form.operands)" for _ in [0])]
        need("register form is looked up with the memory operand replaced by the register wildcard", bool(looks))
    # the load / store parts are added exactly when the instruction loads / stores, from the right look-ups
    for flag, getter, what in (("HAS_LD", "get_load_throughput", "load"), ("HAS_ST", "get_store_throughput", "store")):
        calls = [c for c in ast.walk(blk) if isinstance(c, ast.Call) and pm.call_name(c).endswith(getter)]
        if not calls:
            ctx.unknown("R1", "%s micro-ops are looked up with %s" % (what, getter), f.where(blk), "no call of %s in the composing block" % getter)
        for c in calls:
            need("%s micro-ops are added exactly when the instruction %ss" % (what, what),
                 C.holds_at(c, "INSTR_FLAGS.%s in instruction_form.flags" % flag), c)
            if what == "load":
                need("load micro-ops come from get_load_throughput(memory source operand)", all(
                    r in U(flow.subst(c.args[0])) for r in ("source", "src_dst", "MemoryOperand")) if c.args else False, c)
            else:
                need("store micro-ops come from get_store_throughput(memory destination operand, register type)",
                     bool(c.args) and "MemoryOperand" in U(flow.subst(c.args[0])) and len(c.args) + len(c.keywords) >= 2, c)


def _r2(ctx):
    ctx.rule("R2", "None-able entry fields are tested for None before arithmetic / max / +=")
    sites = 0
    for q in ("ArchSemantics.assign_tp_lt", "ArchSemantics._handle_instruction_found"):
        f = ctx.func(q)
        flow = C.flow_of(f)
        # entry variables
        entries = set()
        for n in ast.walk(f.node):
            if isinstance(n, ast.Assign) and isinstance(n.targets[0], ast.Name) and (C.is_call_to(n.value, "get_instruction") or any(
                    isinstance(x, ast.AST) and C.is_call_to(x, "get_instruction") for x in flow.expand(n.value))):
                entries.add(n.targets[0].id)
        if q.endswith("_handle_instruction_found"):
            entries.add(f.params()[1])

        cfg = C.cfg_of(f)

        def none_guarded(name, at):
            """`name` is known not to be None when `at` is evaluated."""
            if name in C.nonnull_facts(C.facts_at(at)):
                return True
            for iff in [n for n in ast.walk(f.node) if isinstance(n, ast.If)]:
                t = C.is_none_test(iff.test)
                if t and t[0] == name and t[1] and not iff.orelse and cfg.dominates(iff, at) \
                        and not C.in_subtree(at, iff) and any(
                            isinstance(s, ast.Assign) and U(s.targets[0]) == name
                            and not (isinstance(s.value, ast.Constant) and s.value.value is None)
                            for s in iff.body):
                    return True
            return False

        def noneable(expr, at, depth=6, use_guards=True):
            """None-able entry fields `expr` may be a plain copy of when evaluated at `at`."""
            if isinstance(expr, ast.Attribute) and expr.attr in ("throughput", "latency") and isinstance(
                    expr.value, ast.Name) and expr.value.id in entries:
                return set() if use_guards and none_guarded(U(expr), at) else {U(expr)}
            if isinstance(expr, ast.Name) and depth > 0 and flow.is_local(expr.id):
                if use_guards and none_guarded(expr.id, at):
                    return set()
                out = set()
                try:
                    defs = flow.reaching(at, expr.id)
                except KeyError:
                    defs = flow.all_defs.get(expr.id, [])
                for d in defs:
                    if d.kind == "assign" and d.value is not None and not isinstance(d.stmt, str):
                        out |= noneable(d.value, d.stmt, depth - 1, use_guards)
                return out
            return set()

        def guarded(use, expr):
            return False

        for n in ast.walk(f.node):
            uses = []
            if isinstance(n, ast.BinOp) and isinstance(n.op, (ast.Add, ast.Sub, ast.Mult, ast.Div)):
                uses = [n.left, n.right]
            elif isinstance(n, ast.AugAssign):
                uses = [n.target, n.value]
            elif isinstance(n, ast.Call) and isinstance(n.func, ast.Name) and n.func.id in ("max", "min", "sum", "float", "round", "int"):
                uses = list(n.args)
            elif isinstance(n, ast.Compare) and any(isinstance(o, (ast.Lt, ast.Gt, ast.LtE, ast.GtE)) for o in n.ops):
                uses = [n.left] + n.comparators
            for u in uses:
                if not isinstance(u, (ast.Name, ast.Attribute)):
                    continue
                raw = noneable(u, n, use_guards=False)
                if not raw:
                    continue
                na = noneable(u, n)
                sites += 1
                if not na:
                    ctx.node_ok("R2", f, n, "use of %s (copy of %s) is preceded by a None test" % (U(u), sorted(raw)))
                else:
                    ctx.node_bad("R2", f, n, "%s may be None (it is a plain copy of %s, which the loader passes "
                                 "through as ~, and which %s guards with `is None` elsewhere) but is used here in "
                                 "arithmetic/max without a None test -> TypeError" % (
                                     U(u), sorted(na), "_handle_instruction_found"), instance="%s in `%s`" % (U(u), U(n)[:100]))
    ctx.floor("R2", "arithmetic uses of None-able entry fields", sites, 2)
    # the sibling that defines the discipline
    h = ctx.func("ArchSemantics._handle_instruction_found")
    for fld in ("throughput", "latency"):
        tests = [n for n in ast.walk(h.node) if isinstance(n, ast.If) and C.is_none_test(n.test)
                 and C.is_none_test(n.test)[1] and fld in C.is_none_test(n.test)[0]]
        good = any(any(isinstance(s, ast.Assign) and C.const_num(s.value) == 0 for s in t.body) for t in tests)
        ctx.check(good, "R2", "_handle_instruction_found maps a missing %s to 0 and flags it" % fld, h.where(),
                  "_handle_instruction_found no longer replaces a missing %s by 0.0" % fld, h.qname, "None -> 0 for " + fld)


def _r4(ctx, f):
    ctx.rule("R4", "unknown fall-back: zero pressure/latency/throughput, both unknown flags, only when neither form matched")
    unk = [n for n in ast.walk(f.node) if isinstance(n, ast.If) and U(n.test) == "assign_unknown"]
    if len(unk) != 1:
        ctx.broken("R4: `if assign_unknown:` not found")
    u = unk[0]
    body = [U(s) for s in u.body]
    ctx.check(any(C.is_zero_vector_assign(s, "instruction_form.port_pressure") and C.zero_vector(s.value) == "port_number"
                  for s in u.body), "R4", "zero pressure vector", f.where(u),
              "the unknown path does not set instruction_form.port_pressure to one zero per port", f.qname,
              "unknown path: zero pressure vector")
    want = {
        "throughput = 0.0": "throughput 0",
        "latency = 0.0": "latency 0",
    }
    for stmt, desc in want.items():
        ctx.check(any(b == stmt or b.replace("_", "i") == stmt.replace("_", "i") for b in body), "R4", desc,
                  f.where(u), "the unknown path does not set `%s`" % stmt, f.qname, "unknown path: " + desc)
    # `flags += [...]` / `flags.extend(...)` / `flags.append(...)` statements that bring in both flags (directly or via a constant)
    adders = [s for s in u.body if (isinstance(s, ast.AugAssign) and U(s.target) == "flags") or (
        isinstance(s, ast.Expr) and isinstance(s.value, ast.Call) and U(s.value.func) in ("flags.extend", "flags.append"))]
    flags_ok = all(any(C.mentions(ctx, f, s, w) for s in adders) for w in ("TP_UNKWN", "LT_UNKWN"))
    ctx.check(flags_ok, "R4", "both unknown flags are set", f.where(u),
              "the unknown path does not add both TP_UNKWN and LT_UNKWN", f.qname, "unknown path: flags")
    lw = [s for s in u.body if isinstance(s, ast.Assign) and U(s.targets[0]) == "latency_wo_load"]
    ctx.check(bool(lw) and U(lw[0].value) in ("latency", "0.0"), "R4", "latency_wo_load 0", f.where(u),
              "the unknown path leaves latency_wo_load unset", f.qname, "unknown path: latency_wo_load")
    sets = [n for n in ast.walk(f.node) if isinstance(n, ast.Assign) and U(n.targets[0]) == "assign_unknown"]
    trues = [n for n in sets if U(n.value) == "True"]
    falses = [n for n in sets if U(n.value) == "False"]
    ok = len(trues) == 1 and len(falses) == 1
    if ok:
        tfacts = [(U(e), p) for e, p in C.facts_at(trues[0])]
        ffacts = [(U(e), p) for e, p in C.facts_at(falses[0])]
        ok = ("instruction_data", False) in tfacts and any(p and t.startswith("instruction_data_reg") for t, p in ffacts)
    ctx.check(ok, "R4", "unknown exactly when neither the form nor its register form matched", f.where(u),
              "assign_unknown is not (True when no direct match) and (False only when the register form matched)",
              f.qname, "assign_unknown discipline")
    # writes go to the given instruction only
    bad = []
    for n in ast.walk(f.node):
        tg = []
        if isinstance(n, ast.Assign):
            tg = n.targets
        elif isinstance(n, ast.AugAssign):
            tg = [n.target]
        for t in tg:
            if isinstance(t, ast.Attribute) and U(t.value) not in ("instruction_form",):
                bad.append(n)
    ctx.check(not bad, "R4", "assign_tp_lt writes only the instruction it was given", f.where(),
              "assign_tp_lt stores into another object: %s" % [U(b)[:60] for b in bad], f.qname, "foreign attribute store")
    ctx.floor("R4", "attribute stores in assign_tp_lt", sum(
        1 for n in ast.walk(f.node) if isinstance(n, ast.Assign) and any(isinstance(t, ast.Attribute) for t in n.targets)), 8)


def _d1(ctx):
    ctx.rule("D1", "register types used by a model's entries are covered by its multiplier tables")
    for path, d in sorted(ctx.data.models().items()):
        if not isinstance(d, dict):
            continue
        rel = ctx.data.rel(path)
        isa = str(d.get("isa", "")).lower()
        types = set()
        for e in d.get("instruction_forms") or []:
            for o in (e.get("operands") or []) if isinstance(e, dict) else []:
                if isinstance(o, dict) and o.get("class") == "register":
                    if isa == "aarch64":
                        t = o.get("prefix")
                    else:
                        n = str(o.get("name"))
                        t = n if n in ("gpr", "mm", "xmm", "ymm", "zmm") else None
                    if t and t != "*":
                        types.add(t)
        for key in ("load_throughput_multiplier", "store_throughput_multiplier"):
            if key in d and isinstance(d[key], dict):
                miss = sorted(t for t in types if t not in d[key])
                ctx.check(not miss, "D1", "%s: %s covers %s" % (rel, key, sorted(types)), rel,
                          "%s has no row for register type(s) %s used by the model's entries: composing a memory "
                          "form of such a register form raises KeyError" % (key, miss), rel, key)
        ll = d.get("load_latency") if isinstance(d.get("load_latency"), dict) else {}
        miss = sorted(t for t in types if t not in ll)
        if miss:
            ctx.note("D1 (advisory): %s load_latency has no row for register type(s) %s that occur in entries; "
                     "only matters if a memory form is composed from such an entry" % (rel, miss))
        ctx.ok("D1", "%s: load_latency rows %s" % (rel, sorted(ll)), rel)


def _r5(ctx):
    """Contradiction rule: the role lists semantic_operands['source'|'destination'|'src_dst'] are lists everywhere (built as
    lists by ISASemantics, iterated / chained / indexed by every reader); a type test of the list itself against an operand
    class can never succeed, so the condition it sits in is constant."""
    ctx.rule("R5", "the operand role lists are never type-tested as if they were a single operand")
    roles = ("source", "destination", "src_dst")
    iterated = tested = 0
    for f in ctx.repo.all_funcs():
        if f.file.startswith("osaca/data/"):
            continue
        for n in ast.walk(f.node):
            if isinstance(n, ast.Subscript) and isinstance(n.slice, ast.Constant) and n.slice.value in roles \
                    and U(n.value).endswith("semantic_operands"):
                par = C.parent(n)
                if isinstance(par, ast.Call) and C.is_call_to(par, "isinstance") and par.args and par.args[0] is n:
                    tested += 1
                    cls = U(par.args[1]) if len(par.args) > 1 else "?"
                    if cls in ("list", "tuple", "(list, tuple)"):
                        continue
                    ctx.touch(f)
                    ctx.node_bad("R5", f, par, "`%s` tests the whole role list against %s: the list is never an operand, the test is "
                                 "constantly False (its negation constantly True), so the branch it guards is taken for every "
                                 "instruction - e.g. the store micro-ops of a composed store are dropped as if it were an indexed "
                                 "load" % (U(par), cls))
                elif isinstance(par, (ast.For, ast.comprehension)) or (isinstance(par, ast.BinOp) and isinstance(par.op, ast.Add)) \
                        or isinstance(par, ast.Call):
                    iterated += 1
    ctx.floor("R5", "uses of the role lists as lists", iterated, 10)
    ctx.ok("R5", "%d uses of the role lists as sequences, %d isinstance tests on them examined" % (iterated, tested), "")


def _d2(ctx):
    """Writer/reader agreement for the load/store tables: every field that a shipped row carries and that the addressing-mode
    matcher consults on the model side (i_mem.<field>) must be handed to the MemoryOperand the loader builds for that row."""
    ctx.rule("D2", "every field of a load/store table row that the addressing-mode matcher consults is carried over by the loader")
    init = ctx.func("MachineModel.__init__")
    consulted = {}
    for q in ("MachineModel._is_AArch64_mem_type", "MachineModel._is_x86_mem_type"):
        m = ctx.func(q)
        ip = m.params()[1]      # (self, i_mem, mem)
        consulted[q] = {n.attr for n in ast.walk(m.node) if isinstance(n, ast.Attribute) and isinstance(n.value, ast.Name) and n.value.id == ip}
    for table, role in (("load_throughput", "dst"), ("store_throughput", "src")):
        loops = [l for l in ast.walk(init.node) if isinstance(l, ast.For) and U(l.iter) == "self._data['%s']" % table]
        comps = [l for l in ast.walk(init.node) if isinstance(l, (ast.ListComp, ast.GeneratorExp)) and len(l.generators) == 1
                 and U(l.generators[0].iter) == "self._data['%s']" % table]
        if len(loops) + len(comps) != 1:
            ctx.broken("D2: conversion loop over self._data['%s'] not found in MachineModel.__init__" % table)
        loop = (loops + comps)[0]
        row = U(loop.target) if loops else U(loop.generators[0].target)
        mos = [c for c in ast.walk(loop) if isinstance(c, ast.Call) and pm.call_name(c) == "MemoryOperand"]
        if len(mos) != 1:
            ctx.broken("D2: MemoryOperand(...) construction for %s rows not found" % table)
        passed = {}
        for k in mos[0].keywords:
            reads = {n.slice.value for n in ast.walk(k.value) if isinstance(n, ast.Subscript) and U(n.value) == row
                     and isinstance(n.slice, ast.Constant)}
            reads |= {n.args[0].value for n in ast.walk(k.value) if isinstance(n, ast.Call) and isinstance(n.func, ast.Attribute)
                      and n.func.attr == "get" and U(n.func.value) == row and n.args and isinstance(n.args[0], ast.Constant)}
            passed[k.arg] = reads
        # fields present in the shipped rows, per ISA
        for isa, q in (("aarch64", "MachineModel._is_AArch64_mem_type"), ("x86", "MachineModel._is_x86_mem_type")):
            keys = {}
            for path, d in sorted(ctx.data.models().items()):
                if not isinstance(d, dict) or str(d.get("isa", "")).lower() != isa:
                    continue
                for r in d.get(table) or []:
                    if isinstance(r, dict):
                        for k in r:
                            keys.setdefault(k, ctx.data.rel(path))
            for k in sorted(keys):
                if k == "port_pressure":
                    continue
                if k not in consulted[q] and k != role:
                    ctx.ok("D2", "%s/%s: row field '%s' is not consulted by %s" % (isa, table, k, q.split(".")[1]), keys[k])
                    continue
                ok = k in passed and k in passed[k]
                ctx.check(ok, "D2", "%s/%s: row field '%s' -> MemoryOperand(%s=row['%s'])" % (isa, table, k, k, k), init.where(mos[0]),
                          "rows of %s carry the field '%s' (e.g. %s) and the matcher %s compares it, but the loader builds the row's "
                          "MemoryOperand without it (keywords: %s): every row then has the default value, rows that differ only in "
                          "'%s' become indistinguishable and the first one in file order is used for all of them" % (
                              table, k, keys[k], q.split(".")[1], sorted(passed), k), init.qname, "%s %s field %s" % (isa, table, k))


def _r7(ctx):
    ctx.rule("R7", "the default load / store row is returned only when no table row matches the addressing mode (and register type, for stores)")
    for q, table, typed in (("MachineModel.get_load_throughput", "load_throughput", False),
                            ("MachineModel.get_store_throughput", "store_throughput", True)):
        g = ctx.func(q)
        gflow = C.flow_of(g)
        mem = g.params()[1]
        rets = [r for r in ast.walk(g.node) if isinstance(r, ast.Return) and r.value is not None]
        dflt = [r for r in rets if ("%s_default" % table) in U(r.value)]
        rows = [r for r in rets if r not in dflt]
        if not dflt or not rows:
            ctx.unknown("R7", "%s: table rows / default" % g.name, g.where(), "no return of the default row or no return of table rows found")
            continue

        def filt_kind(e):
            """'mode' - the rows of the table that match the addressing mode, nothing else; 'typed' - such rows further filtered
            by the register type; None - anything else"""
            if not (isinstance(e, ast.ListComp) and len(e.generators) == 1 and U(e.elt) == U(e.generators[0].target)):
                return None
            gen = e.generators[0]
            conds = [c_ for i_ in gen.ifs for c_ in C.conj_parts(i_)]
            texts = [U(c_) for c_ in conds]
            base = U(gen.iter)
            mode = [t for t in texts if "_match_mem_entries(%s, %s[0])" % (mem, U(gen.target)) in t]
            if base == "self._data['%s']" % table and len(texts) == 1 and mode:
                return "mode"
            if gflow.is_local(base) and all("_check_operands" in t or "is not None" in t for t in texts) and texts:
                return "typed"
            return None

        for r in dflt:
            # the emptiness test that leads here, and the list it is about
            lists = []
            for e, pol in C.norm_fact_nodes(r):
                b = C.bounds_on(e, None) if False else None
                t = U(e)
                m_ = re.fullmatch(r"len\((\w+)\) (>|>=|==|<|<=) (\d+)", t)
                if m_ and ((m_.group(2) == ">" and m_.group(3) == "0" and not pol) or (m_.group(2) == "==" and m_.group(3) == "0" and pol)
                           or (m_.group(2) == ">=" and m_.group(3) == "1" and not pol) or (m_.group(2) == "<" and m_.group(3) == "1" and pol)
                           or (m_.group(2) == "<=" and m_.group(3) == "0" and pol)):
                    lists.append(m_.group(1))
                elif isinstance(e, ast.Name) and not pol:
                    lists.append(e.id)
            if len(lists) != 1:
                ctx.unknown("R7", "%s: default row" % g.name, g.where(r), "the default row is not returned under one emptiness test of a row list")
                continue
            try:
                ds = gflow.reaching(r, lists[0])
            except KeyError:
                ds = []
            kinds = []
            for d in ds:
                k = filt_kind(d.value) if d.kind == "assign" and d.value is not None else None
                # a replacement that is only made when it is non-empty cannot be the empty list seen here
                if k != "mode" and d.kind == "assign" and isinstance(d.value, ast.Name) and any(
                        (pol and U(e) == d.value.id) or (pol and U(e) in ("len(%s) > 0" % d.value.id, "len(%s) >= 1" % d.value.id))
                        for e, pol in C.norm_fact_nodes(d.stmt)):
                    continue
                kinds.append((k, d))
            if not kinds or any(k is None for k, _ in kinds):
                ctx.unknown("R7", "%s: default row" % g.name, g.where(r), "the row list `%s` is not built by the recognised filters" % lists[0])
                continue
            allowed = {"mode", "typed"} if typed else {"mode"}
            bad = [d for k, d in kinds if k not in allowed]
            ctx.check(not bad, "R7", "%s: the default row stands for 'no row of the table matches the addressing mode%s'" % (
                g.name, " and register type" if typed else ""), g.where(bad[0].stmt) if bad else g.where(r),
                "%s returns the model's default micro-ops although rows of the table match the addressing mode: the list tested for "
                "emptiness was narrowed by `%s` first (a row of another register type used to be taken in that case)" % (
                    g.name, U(bad[0].value)[:120] if bad else ""), g.qname, "default only without a matching row")


def composition_rule(ctx):
    """R1 alone (embedded by C01 / C02 as a premise)."""
    f = ctx.func(FN)
    blk, reg = _composed_block(ctx, f)
    _r1(ctx, f, blk, reg, with_latency=False)


def run(ctx):
    C.require_locals(ctx, ctx.func('ArchSemantics.assign_tp_lt'), ['instruction_form', 'operands', 'reg_type', 'throughput', 'latency', 'latency_wo_load', 'assign_unknown', 'flags', 'port_number', 'instruction_data'])
    f = ctx.func(FN)
    blk, reg = _composed_block(ctx, f)
    _r1(ctx, f, blk, reg)
    _r2(ctx)
    ctx.rule("R3", "no in-place mutation of model storage while composing (ownership analysis)")
    eff = effects_of(ctx)
    only = {FN, "ArchSemantics._handle_instruction_found", "MachineModel.get_load_throughput",
            "MachineModel.get_store_throughput", "MachineModel.get_load_latency", "MachineModel.get_store_latency",
            "MachineModel.average_port_pressure", "MachineModel.get_instruction", "ISASemantics.substitute_mem_address",
            "MachineModel._check_operands", "MachineModel._match_mem_entries", "ArchSemantics.add_semantics",
            "ArchSemantics.set_hidden_loads", "ArchSemantics._nullify_data_ports"}
    n = mutation_findings(ctx, eff, "R3", only_funcs=only)
    ctx.ok("R3", "%d in-place mutation site(s) on the composition path examined" % n, f.where())
    for q, want in (("MachineModel.get_load_throughput", 1), ("MachineModel.get_store_throughput", 1)):
        s = eff.summ[q]
        ctx.check(s.ret.d >= want, "R3", "%s hands out at most the rows by reference (depth >= %d)" % (q, want),
                  ctx.repo.func(q).where(), "%s returns the model's table itself" % q, q, "summary " + q)
    _r4(ctx, f)
    _r5(ctx)
    _d1(ctx)
    _d2(ctx)
    _r7(ctx)
    # R6: which register form is found, and whether the form counts as load / store / both, is decided by look-ups that
    # are retried without the mnemonic suffix - with the register-wildcard operands in every slot (shared with C07-R4)
    from . import c07
    c07._r4(ctx, rule="R6", funcs=("ArchSemantics.assign_tp_lt", "ISASemantics.assign_src_dst"), floor=4)
