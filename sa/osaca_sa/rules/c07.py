"""C07 - instruction-form lookup is sound and complete for operand kinds."""
import ast
import string

from .. import boolfn, pm
from ..pm import U
from ..report import VERIF
from ..yamldata import entry_names, sig_of_entry
from . import common as C

TECHNIQUE = "static analysis: decision-function equivalence (each matcher predicate is turned into a ROBDD over its atoms and compared with the decision tables of /verif/spec/matcher_spec.py), order-preservation and key-folding checks on loader and look-up, slot-wise sibling comparison of the five primary look-up sites' suffix fall-backs, operand-class exhaustiveness, exhaustive lint of every shipped entry's operand patterns against the vocabulary the matcher has a positive rule for"
EXPLANATION = (
    "R1: the operand-count comparison dominates the operand loop of _match_operands, which conjoins "
    "_check_operands(entry operand i, operand i) over all positions. R2: candidate lists are filled by one "
    "forward pass over the file's entries (alias expansion order-preserving, no reordering list mutation) "
    "and consumed by a first-match search. R3: loader index keys and look-up key pass the same case "
    "folding. R4: each of the primary look-ups (first argument = the analysed instruction's mnemonic) is "
    "followed on its miss path by the AT&T size-suffix and the AArch64 '.'-suffix fall-backs with "
    "identical slots (ISA guard, suffix test, slice, unchanged operands). R5: every operand class the "
    "parsers or the loader can produce has a branch in the ISA's _check_*_operands. R6: BDD equality of "
    "_check_operands, _check_x86_operands, _check_AArch64_operands, _is_x86_reg_type, "
    "_is_AArch64_reg_type, _is_x86_mem_type, _is_AArch64_mem_type with their decision tables; a "
    "disagreement prints the distinguishing operand-kind combination. D1: every operand pattern of every "
    "shipped entry lies in the set the matcher can match (else the entry can never be selected). R7: the classifiers of the x86 parser that the matcher consults (is_vector_register, and through it the final gpr branch of _is_x86_reg_type) recognise exactly the architectural vector classes mm/xmm/ymm/zmm - as a literal list or as a constant regular expression evaluated on the class names - so that no MMX/vector register is taken for a general-purpose one (obligations of C12-R1, embedded)."
)
NOT_DECIDED = "Comparison with an independent matcher on generated models and instructions (behavioural)."
ASSUMPTIONS = [
    "atoms of a decision function are independent except for the axioms listed in rules/c07.py",
    "spec/matcher_spec.py states the operand-kind agreement the property describes (reviewed by hand)",
]

PREDICATES = ["_check_operands", "_check_x86_operands", "_check_AArch64_operands", "_is_AArch64_reg_type",
              "_is_x86_reg_type", "_is_AArch64_mem_type", "_is_x86_mem_type"]
AXIOMS = []


def _class_consts(f):
    """`self.NAME` -> value for the named constants of the function's class (class-level NAME = <non-None literal>, never
    assigned elsewhere in the module)."""
    out = {}
    cls = next((c for c in ast.walk(f.module.tree) if isinstance(c, ast.ClassDef) and f.node in ast.walk(c)), None)
    if cls is None:
        return out
    for st in cls.body:
        if isinstance(st, ast.Assign) and len(st.targets) == 1 and isinstance(st.targets[0], ast.Name) \
                and isinstance(st.value, ast.Constant) and st.value.value is not None:
            nm = st.targets[0].id
            stores = [n for n in ast.walk(f.module.tree) if isinstance(n, ast.Attribute) and n.attr == nm
                      and isinstance(n.ctx, ast.Store)]
            if not stores:
                out["self." + nm] = st.value.value
    return out


def _r1(ctx):
    ctx.rule("R1", "arity guard dominates the operand loop; all positions are conjoined")
    f = ctx.func("MachineModel._match_operands")
    ie, op = f.params()[1], f.params()[2]
    cfg = C.cfg_of(f)
    guards = [n for n in ast.walk(f.node) if isinstance(n, ast.If) and U(n.test) in (
        "len(%s) != len(%s)" % (op, ie), "len(%s) != len(%s)" % (ie, op))
        and any(isinstance(s, ast.Return) and U(s.value) == "False" for s in n.body)]
    loops = [n for n in ast.walk(f.node) if isinstance(n, (ast.For,))]
    gens = [n for n in ast.walk(f.node) if isinstance(n, (ast.GeneratorExp, ast.ListComp))]
    if not loops and not gens:
        ctx.broken("R1: no operand loop in _match_operands")
    first = loops[0] if loops else gens[0]
    ctx.check(bool(guards) and cfg.dominates(guards[0], first), "R1", "length comparison precedes the loop", f.where(),
              "operands are compared position-wise without first requiring equal operand counts: an entry with "
              "more (or fewer) operands could be applied", f.qname, "arity guard")
    calls = C.calls_to(f.node, "_check_operands")
    good = False
    for c in calls:
        a = [U(x) for x in c.args]
        # _check_operands(i_operands[idx], operand) with idx/operand from enumerate(operands), or zip
        for l in loops:
            if C.is_call_to(l.iter, "enumerate") and U(l.iter.args[0]) == op and isinstance(l.target, ast.Tuple):
                idx, o = U(l.target.elts[0]), U(l.target.elts[1])
                flow = C.flow_of(f)
                first_arg = U(flow.subst(c.args[0]))
                if first_arg == "%s[%s]" % (ie, idx) and a[1] == o:
                    good = True
            if C.is_call_to(l.iter, "zip") and [U(x) for x in l.iter.args] == [ie, op]:
                if isinstance(l.target, ast.Tuple) and a == [U(l.target.elts[0]), U(l.target.elts[1])]:
                    good = True
        for g in gens:
            gen = g.generators[0]
            if C.is_call_to(gen.iter, "zip") and [U(x) for x in gen.iter.args] == [ie, op] and isinstance(gen.target, ast.Tuple) \
                    and a == [U(gen.target.elts[0]), U(gen.target.elts[1])] and not gen.ifs and C.in_subtree(c, g):
                good = True
    ctx.check(good, "R1", "entry operand i is compared with instruction operand i", f.where(),
              "_check_operands is not applied to (entry operand i, operand i) for every position", f.qname,
              "position pairing")
    acc = pm.find("M_ok = M_ok and self._check_operands(M_a, M_b)", f.node)
    allc = pm.find("all(M__)", f.node)
    ok_acc = False
    if acc:
        name = U(acc[0][1]["M_ok"])
        inits = [a for a in C.assigns_to(f.node, name) if U(a.value) == "True"]
        rets = [r for r in ast.walk(f.node) if isinstance(r, ast.Return)]
        ok_acc = bool(inits) and any(U(r.value) == "True" and any(
            p and U(e) == name for e, p in C.facts_at(r)) for r in rets) and not any(
            U(r.value) == "True" and not C.facts_at(r) for r in rets)
    # the same conjunction as an early exit: inside the loop a failing position returns False, True is returned only after it
    ok_early = False
    if loops:
        lp = loops[0]
        rets = [r for r in ast.walk(f.node) if isinstance(r, ast.Return) and isinstance(r.value, ast.Constant)]
        early = [r for r in rets if r.value.value is False and C.in_subtree(r, lp) and any(
            (not p) and isinstance(e, ast.Call) and pm.call_name(e).endswith("_check_operands") for e, p in C.norm_fact_nodes(r, stop=lp))]
        trues = [r for r in rets if r.value.value is True]
        skip = cfg.reachable(lp, lp, avoid=[cfg.node_of(c) for c in calls if C.in_subtree(c, lp)], within=lp) if lp.body else True
        ok_early = bool(early) and bool(trues) and all(not C.in_subtree(r, lp) and cfg.dominates(lp, r) for r in trues) \
            and not any(isinstance(x, ast.Break) and C.enclosing_loop(x) is lp for x in ast.walk(lp)) and not skip
    ctx.check(ok_acc or bool(allc) or ok_early, "R1", "result is the conjunction over all positions", f.where(),
              "the per-position results are not conjoined (True must require every position to agree)", f.qname,
              "conjunction")


def _r2_r3(ctx):
    ctx.rule("R2", "first match in file order: order-preserving loader, forward fill, first-match search")
    ctx.rule("R3", "loader keys and look-up key use the same case folding")
    init = ctx.func("MachineModel.__init__")
    gi = ctx.func("MachineModel.get_instruction")
    forms = 'self._data["instruction_forms"]'
    # reordering mutations of the entry list in the loader
    reorder = []
    for n in ast.walk(init.node):
        if isinstance(n, ast.Call) and isinstance(n.func, ast.Attribute) and n.func.attr in (
                "append", "remove", "insert", "sort", "reverse", "pop", "extend") and U(n.func.value).replace("'", '"') == forms:
            reorder.append(n)
    for n in reorder:
        ctx.node_bad("R2", init, n, "the loader mutates the entry list with .%s(): entries no longer keep the "
                     "position they have in the model file (alias expansion must be order-preserving), so 'the "
                     "first matching entry in file order' is not the one that is found" % n.func.attr)
    if not reorder:
        ctx.ok("R2", "no reordering mutation of self._data['instruction_forms'] in the loader", init.where())
    # alias expansion: a forward pass building a new list
    re_assign = [a for a in ast.walk(init.node) if isinstance(a, ast.Assign) and U(a.targets[0]).replace("'", '"') == forms
                 and isinstance(a.value, ast.Name)]
    if re_assign:
        lst = re_assign[0].value.id
        loops = [l for l in ast.walk(init.node) if isinstance(l, ast.For) and U(l.iter).replace("'", '"') == forms
                 and pm.find("%s.append(M__)" % lst, l)]
        ok = len(loops) == 1 and all(c.func.attr == "append" for c in ast.walk(loops[0]) if isinstance(c, ast.Call)
                                     and isinstance(c.func, ast.Attribute) and U(c.func.value) == lst)
        ctx.check(ok, "R2", "alias expansion is one forward pass appending to a new list", init.where(re_assign[0]),
                  "alias expansion does not build the new entry list by appending in one forward pass over the "
                  "file's entries", init.qname, "alias expansion order")
        if ok:
            l = loops[0]
            inner = [x for x in ast.walk(l) if isinstance(x, ast.For) and x is not l
                     and pm.find("%s.append(M__)" % lst, x)]
            ctx.check(all(U(x.iter) == "%s['name']" % U(l.target) for x in inner), "R2",
                      "names of one entry are expanded in their listed order", init.where(l),
                      "names of a multi-name entry are not expanded in listed order", init.qname, "alias name order")
    # index fill
    fills = [l for l in ast.walk(init.node) if isinstance(l, ast.For) and U(l.iter).replace("'", '"') == forms
             and pm.find('self._data["instruction_forms_dict"][M_k].M_meth(REST_)', l)]
    if len(fills) != 1:
        ctx.broken("R2: the loop filling instruction_forms_dict was not found")
    fill = fills[0]
    app = pm.find('self._data["instruction_forms_dict"][M_k].append(M_v)', fill)
    other = [n for n, b in pm.find('self._data["instruction_forms_dict"][M_k].M_meth(REST_)', fill) if b["M_meth"] != "append"]
    ctx.check(len(app) == 1 and not other and C.enclosing_loop(app[0][0]) is fill, "R2",
              "name index is filled by one forward pass (append)", init.where(fill),
              "the per-name candidate lists are not filled by appending in file order (%s)" % (
                  [U(o)[:70] for o in other] or "no append"), init.qname, "index fill")
    # first-match search
    nx = [c for c in ast.walk(gi.node) if isinstance(c, ast.Call) and isinstance(c.func, ast.Name) and c.func.id == "next"]
    ok = False
    cand = None
    if nx and isinstance(nx[0].args[0], ast.GeneratorExp):
        g = nx[0].args[0]
        gen = g.generators[0]
        cand = U(gen.iter)
        ok = (len(g.generators) == 1 and U(g.elt) == U(gen.target) and len(gen.ifs) == 1
              and C.is_call_to(gen.ifs[0], "_match_operands")
              and [U(a) for a in gen.ifs[0].args] == ["%s.operands" % U(gen.target), gi.params()[2]])
    if not nx:
        # the same search as a loop: for c in candidates: if match(c.operands, operands): return c
        for l in [x for x in ast.walk(gi.node) if isinstance(x, ast.For) and isinstance(x.target, ast.Name)]:
            tests = [n for n in l.body if isinstance(n, ast.If) and C.is_call_to(n.test, "_match_operands")
                     and [U(a) for a in n.test.args] == ["%s.operands" % l.target.id, gi.params()[2]]
                     and any(isinstance(s, ast.Return) and U(s.value) == l.target.id for s in n.body)]
            if len(tests) == 1 and len(l.body) == 1:
                ok, cand = True, U(l.iter)
    ctx.check(ok, "R2", "look-up returns the first candidate whose operands match", gi.where(),
              "get_instruction is not `next(form for form in candidates if self._match_operands(form.operands, "
              "operands))`", gi.qname, "first-match search")
    if cand:
        cd = [a for a in C.assigns_to(gi.node, cand)] if cand.isidentifier() else []
        cexpr = cd[0].value if cd else ast.parse(cand, mode="eval").body      # a local, or the expression used in place
        cexpr = C.flow_of(gi).subst(cexpr)          # the index held in a local
        b = None
        for pat in ('self._data["instruction_forms_dict"].get(M_k, M_dflt)', 'self._data["instruction_forms_dict"].get(M_k)',
                    'self._data["instruction_forms_dict"][M_k]'):
            b = b or pm.match(pat, cexpr)
        dflt_ok = b is not None and ("M_dflt" not in b or U(b["M_dflt"]) in ("[]", "()", "list()", "tuple()"))
        reordered = isinstance(cexpr, ast.Call) and (pm.call_name(cexpr) or "").split(".")[-1] in ("sorted", "reversed") or isinstance(cexpr, ast.Subscript) and isinstance(cexpr.slice, ast.Slice)
        ctx.judge(b is not None and dflt_ok, b is not None or reordered, "R2", "candidates are the name index's list (unsorted, unsliced)", gi.where(),
                  "candidate list is not taken as-is from the name index (%s)" % U(cexpr)[:100], gi.qname, "candidate source")
        # R3 key folding
        lk = U(b["M_k"]) if b else ""
        fold_lookup = ".upper()" if lk.endswith(".upper()") else ".lower()" if lk.endswith(".lower()") else None
        ik = U(app[0][1]["M_k"]) if app else ""
        fold_index = None
        flow = C.flow_of(init)
        # the index key is iform["name"], upper-cased in place just before
        ups = pm.find('M_f["name"] = M_f["name"].upper()', fill)
        lows = pm.find('M_f["name"] = M_f["name"].lower()', fill)
        if ".upper()" in ik or ups:
            fold_index = ".upper()"
        elif ".lower()" in ik or lows:
            fold_index = ".lower()"
        ctx.check(fold_lookup is not None and fold_lookup == fold_index, "R3",
                  "index key and look-up key are folded alike (%s)" % fold_lookup, gi.where(),
                  "the name index is keyed with %s-folded names but looked up with %s: mnemonics are no longer "
                  "matched case-insensitively" % (fold_index, fold_lookup), "MachineModel", "key folding")
        ctx.check(lk.startswith(gi.params()[1]), "R3", "look-up key is the given mnemonic", gi.where(),
                  "look-up key %s is not derived from the name parameter" % lk, gi.qname, "lookup key origin")


def _fallback_slots(f, call, cfg):
    """Slots of the two suffix fall-backs following the primary look-up `call` in function f.

    A fall-back is a second get_instruction on the same receiver whose result is assigned to the same variable as the
    primary look-up and which is dominated by it; its guard is the set of facts that hold at the retry and do not
    already hold at the primary look-up (however they are spread over nested ifs and conjunctions)."""
    st = cfg.node_of(call)
    if not (isinstance(st, ast.Assign) and isinstance(st.targets[0], ast.Name)):
        return None
    var = st.targets[0].id
    recv = U(call.func.value)
    mn, ops = U(call.args[0]), U(call.args[1])
    out = {"var": var, "x86": None, "aarch64": None}
    base = {(U(e), p) for e, p in C.facts_at(st)}
    flow = C.flow_of(f)
    for r in C.calls_to(f.node, "get_instruction"):
        rs = cfg.node_of(r)
        if r is call or U(r.func.value) != recv or not isinstance(rs, ast.Assign):
            continue
        if U(rs.targets[0]) != var:
            # `other = <retries> if var is None else var`: the hit is carried over, the retries fill the miss
            v = rs.value
            carried = isinstance(v, ast.IfExp) and (
                (U(v.test) == var + " is None" and U(v.orelse) == var) or (U(v.test) in (var, var + " is not None") and U(v.body) == var))
            if not carried:
                continue
        if not cfg.dominates(st, rs) or len(r.args) != 2:
            continue
        # a retry that follows a later primary look-up into the same variable belongs to that one
        later = [p2 for p2 in C.calls_to(f.node, "get_instruction") if p2 is not call and p2 is not r and len(p2.args) == 2
                 and U(p2.args[0]) == mn and cfg.node_of(p2) is not st and cfg.dominates(st, cfg.node_of(p2))
                 and cfg.dominates(cfg.node_of(p2), rs)]
        if later:
            continue
        # (the guards of the retry CALL: conditional expressions around it count like nested ifs)
        facts = {(U(e), p) for e, p in C.facts_at(r)} - base
        pos = {t for t, p in facts if p}
        neg = {t for t, p in facts if not p}
        miss = (var + " is None") in pos or var in neg or (var + " is not None") in neg
        if not miss:
            continue
        arg0 = U(flow.subst(r.args[0]))
        other_isa = lambda t, mine: any(C.canon_eq("self._isa", "'%s'" % o) in t for o in ("x86", "aarch64") if o != mine)
        rest = lambda *known: [t for t, p in facts if not (p and t in known) and t not in (var + " is None",)
                               and not (not p and t in (var, var + " is not None"))
                               and not (not p and other_isa(t, "x86" if "x86" in known[0] else "aarch64"))]
        if C.canon_eq("self._isa", "'x86'") in pos:
            suffix = "%s[-1] in self.GAS_SUFFIXES" % mn
            out["x86"] = {"suffix_test": suffix in pos, "slice": arg0 == "%s[:-1]" % mn,
                          "operands": U(r.args[1]) == ops, "node": rs, "extra": bool(rest(C.canon_eq("self._isa", "'x86'"), suffix))}
        elif C.canon_eq("self._isa", "'aarch64'") in pos:
            suffix = "'.' in %s" % mn
            out["aarch64"] = {"suffix_test": suffix in pos,
                              "slice": arg0 in ("%s[:%s.index('.')]" % (mn, mn), "%s.partition('.')[0]" % mn,
                                                "%s.split('.')[0]" % mn, "%s.split('.', 1)[0]" % mn),
                              "operands": U(r.args[1]) == ops, "node": rs,
                              "extra": bool(rest(C.canon_eq("self._isa", "'aarch64'"), suffix))}
    return out


def _r4(ctx, rule="R4", funcs=("ArchSemantics.assign_tp_lt", "ISASemantics.assign_src_dst", "ISASemantics.get_reg_changes"), floor=5):
    ctx.rule(rule, "every primary look-up is followed by both suffix fall-backs with identical slots")
    sites = 0
    for q in funcs:
        f = ctx.func(q)
        cfg = C.cfg_of(f)
        for c in C.calls_to(f.node, "get_instruction"):
            if len(c.args) != 2:
                continue
            a0 = U(c.args[0])
            if a0 != "instruction_form.mnemonic":
                continue  # a fall-back retry, not a primary look-up
            sites += 1
            slots = _fallback_slots(f, c, cfg)
            if slots is None:
                ctx.node_bad(rule, f, c, "the result of a primary look-up is not assigned to a local")
                continue
            for isa, what in (("x86", "AT&T size suffix (mnemonic[-1] in GAS_SUFFIXES -> mnemonic[:-1])"),
                              ("aarch64", "'.cond'/'.shape' suffix ('.' in mnemonic -> mnemonic[:index('.')])")):
                s = slots[isa]
                inst = "%s look-up of %s: %s fall-back" % (q.split(".")[1], U(c.args[1]), isa)
                if s is None:
                    ctx.bad(rule, inst, f.where(c), "the primary look-up `%s` is not followed on its miss path by "
                            "the %s fall-back" % (U(c)[:90], what), f.qname, "%s fallback after %s" % (isa, U(c)[:80]))
                elif not s["suffix_test"]:
                    ctx.unknown(rule, inst, f.where(s["node"]), "a retry for %s exists but its guard is not the recognised suffix test" % isa)
                elif not (s["suffix_test"] and s["slice"] and s["operands"]) or s["extra"]:
                    ctx.bad(rule, inst, f.where(s["node"]), "the %s fall-back after `%s` deviates from its siblings "
                            "(suffix test ok=%s, retry slice ok=%s, operands unchanged=%s, extra conditions=%s)" % (
                                isa, U(c)[:60], s["suffix_test"], s["slice"], s["operands"], s["extra"]), f.qname,
                            "%s fallback after %s" % (isa, U(c)[:80]))
                else:
                    ctx.ok(rule, inst, f.where(s["node"]))
    ctx.floor(rule, "primary look-ups", sites, floor)
    for cls in ("ArchSemantics", "ISASemantics"):
        v = None
        for _ in range(4):
            # the attribute as the class sees it: its own definition, an inherited one, or an alias of another class's
            for k in ctx.repo.mro(cls):
                if "GAS_SUFFIXES" in ctx.repo.cls(k).class_attrs:
                    v = ctx.repo.cls(k).class_attrs["GAS_SUFFIXES"]
                    break
            if isinstance(v, ast.Attribute) and isinstance(v.value, ast.Name) and v.value.id in ctx.repo.classes:
                cls_, attr_ = v.value.id, v.attr
                v = None
                for k in ctx.repo.mro(cls_):
                    if attr_ in ctx.repo.cls(k).class_attrs:
                        v = ctx.repo.cls(k).class_attrs[attr_]
                        break
            if not isinstance(v, ast.Attribute):
                break
        try:
            lit = C.literal(v) if v is not None else None
        except Exception:
            lit = None
        same = lit is not None and all(isinstance(x, str) and len(x) == 1 for x in lit) and sorted(lit) == sorted("bswlqt")
        ctx.check(same, rule, "%s.GAS_SUFFIXES = 'bswlqt'" % cls, ctx.repo.cls(cls).where(),
                  "GAS_SUFFIXES of %s is %s" % (cls, U(v) if v is not None else None), cls, "GAS_SUFFIXES")
    # a miss is None: InstructionForm defines neither __bool__ nor __len__ (so `not x` == `x is None`)
    iform = ctx.repo.cls("InstructionForm")
    ctx.check("__bool__" not in iform.methods and "__len__" not in iform.methods, rule,
              "`not entry` and `entry is None` are the same miss test", iform.where(),
              "InstructionForm defines __bool__/__len__: `not entry` is no longer equivalent to `entry is None`",
              "InstructionForm", "truthiness of entries")


def _r5(ctx):
    ctx.rule("R5", "every producible operand class has a branch in the ISA's operand check")
    oc = ctx.func("MachineModel.operand_to_class")
    loader_classes = set()
    for c in ast.walk(oc.node):
        if isinstance(c, ast.Call) and isinstance(c.func, ast.Name) and c.func.id.endswith("Operand"):
            loader_classes.add(c.func.id)
    for isa, fn, parser in (("x86", "MachineModel._check_x86_operands", "ParserX86ATT"),
                            ("aarch64", "MachineModel._check_AArch64_operands", "ParserAArch64")):
        f = ctx.func(fn)
        handled = set()
        for c in ast.walk(f.node):
            if C.is_call_to(c, "isinstance") and len(c.args) == 2 and isinstance(c.args[1], ast.Name):
                handled.add(c.args[1].id)
        produced = set()
        pcls = ctx.repo.cls(parser)
        for mname, m in pcls.methods.items():
            if not mname.startswith("process_"):
                continue
            for c in ast.walk(m.node):
                if isinstance(c, ast.Call) and isinstance(c.func, ast.Name) and c.func.id.endswith("Operand"):
                    produced.add(c.func.id)
        produced -= {"DirectiveOperand", "LabelOperand"}  # never operands of an instruction
        ctx.floor("R5", "operand classes produced by %s" % parser, len(produced), 4)
        for cls in sorted(produced):
            ok = cls in handled
            if not ok and isa == "x86" and cls in ("ConditionOperand", "PrefetchOperand"):
                ok = True  # produced only by helper code shared with AArch64
            ctx.check(ok, "R5", "%s: parser class %s has a branch" % (isa, cls), f.where(),
                      "%s produces %s operands but %s has no isinstance branch for them (they fall through to the "
                      "catch-all)" % (parser, cls, fn), f.qname, "%s branch for %s" % (isa, cls))


def _r6(ctx):
    ctx.rule("R6", "matcher predicates are BDD-equal to their decision tables")
    spec_path = VERIF / "spec" / "matcher_spec.py"
    spec = {n.name: n for n in ast.parse(spec_path.read_text()).body if isinstance(n, ast.FunctionDef)}
    stats = {}
    for name in PREDICATES:
        f = ctx.func("MachineModel." + name)
        if name not in spec:
            ctx.broken("R6: no decision table for %s in spec/matcher_spec.py" % name)
        try:
            bases = {c: set(ctx.repo.mro(c)[1:]) for c in ctx.repo.classes}
            eq, info = boolfn.compare(f.node, spec[name], AXIOMS, bases, _class_consts(f))
        except boolfn.Undecidable as e:
            ctx.broken("R6: %s is no longer a pure decision function the BDD extraction understands: %s" % (name, e))
        stats[name] = {"atoms": info["atoms_code"], "bdd_nodes": info["bdd_nodes"]}
        if eq:
            ctx.ok("R6", "%s == decision table (%d atoms, %d BDD nodes)" % (name, info["atoms_code"], info["bdd_nodes"]),
                   f.where())
        elif info.get("undetermined"):
            ctx.unknown("R6", "%s vs decision table" % name, f.where(),
                        "%s contains conditions the comparison cannot interpret (%s); for some value of them it agrees with its "
                        "decision table" % (name, info.get("opaque_atoms", info["only_in_code"])[:3]))
        else:
            w = info.get("witness", {})
            ctx.bad("R6", "%s vs decision table" % name, f.where(),
                    "%s disagrees with its decision table: for the operand-kind combination {%s} the code answers "
                    "%s, the table %s%s" % (name, ", ".join("%s=%s" % kv for kv in sorted(w.items())),
                                             info.get("code_says"), info.get("spec_says"),
                                             ("; atoms only in the code: %s" % info["only_in_code"][:4]) if info["only_in_code"] else ""),
                    f.qname, "decision function %s" % name, f.module.excerpt(f.node)[:1500])
    ctx.extra["decision_functions"] = stats
    # _compare_db_entries (catch-all of the x86 check): constant True today
    cde = ctx.func("MachineModel._compare_db_entries")
    first = [s for s in cde.node.body if not (isinstance(s, ast.Expr) and isinstance(s.value, ast.Constant))][0]
    if isinstance(first, ast.Return) and U(first.value) == "True":
        ctx.note("R6: _compare_db_entries returns True unconditionally (x86 operands of an unknown class match any "
                 "entry operand); no parser-produced class reaches it (R5)")


X86_STEMS = {"gpr", "*"} | {"mm", "xmm", "ymm", "zmm", "k", "st", "rip", "cl", "al", "ax", "eax", "rax", "dx",
                            "bnd", "cr", "dr", "es", "cs", "ss", "ds", "fs", "gs", "tmm"}


def _lint_pattern(isa, o, prefixes):
    """Problems of one entry operand pattern: can the matcher ever answer True for it?"""
    c = o.get("class")
    if c == "register":
        if isa == "x86":
            n = o.get("name")
            if n is None:
                return ["register pattern without a name: no parsed register has name None"]
            n = str(n)
            if n.lower() != n:
                return ["register pattern %r is not lower case (the matcher lower-cases the parsed name)" % n]
            if n not in ("gpr", "*") and n.rstrip(string.digits) != n:
                return ["register pattern %r ends in digits: the matcher compares it with the digit-stripped parsed "
                        "name, so it can never be equal" % n]
            if n not in X86_STEMS and not n.isalpha():
                return ["register pattern %r is not a register class the matcher knows" % n]
            if n.isalpha() and n not in X86_STEMS:
                return ["register pattern %r is not a stem of an x86 register (known: gpr, mm, xmm, ymm, zmm, k, ...)" % n]
        else:
            p = o.get("prefix")
            if p is None:
                return ["AArch64 register pattern without a prefix"]
            if str(p) != "*" and str(p).lower() not in prefixes:
                return ["AArch64 register prefix %r is not one the grammar can produce (%s)" % (p, "".join(sorted(prefixes)))]
    elif c == "immediate":
        t = o.get("imd")
        if isa == "x86" and t != "int":
            return ["x86 immediate pattern of type %r: the x86 check only accepts 'int'" % (t,)]
        if isa == "aarch64" and t not in ("int", "float", "double", "*"):
            return ["immediate type %r is none of int/float/double/*" % (t,)]
    elif c == "memory":
        out = []
        for k in ("base", "index"):
            v = o.get(k)
            if isa == "aarch64" and v not in (None, "*") and not isinstance(v, dict) and str(v).lower() not in prefixes | {"gpr"}:
                out.append("memory %s pattern %r is not a register prefix the grammar can produce" % (k, v))
        v = o.get("offset")
        if v not in (None, "*", "imd", "id") and not isinstance(v, dict):
            out.append("memory offset pattern %r is none of ~/*/imd/id" % (v,))
        s = o.get("scale")
        if s != "*" and not isinstance(s, int):
            out.append("memory scale pattern %r is neither an integer nor *" % (s,))
        return out
    return []


def _d1(ctx):
    ctx.rule("D1", "every operand pattern of every shipped entry can be matched by some parsed operand")
    from .c12 import _grammar_prefixes

    _, prefixes = _grammar_prefixes(ctx)
    n_entries = 0
    for path, d in sorted(ctx.data.models().items()):
        if not isinstance(d, dict):
            continue
        rel = ctx.data.rel(path)
        ctx.files.add(rel)
        isa = str(d.get("isa", "")).lower()
        bad = 0
        forms = d.get("instruction_forms") or []
        for e in forms:
            if not isinstance(e, dict):
                continue
            n_entries += 1
            key = "%s %s" % ("/".join(entry_names(e)[:3]), sig_of_entry(e))
            for o in e.get("operands") or []:
                if not isinstance(o, dict):
                    continue
                for prob in _lint_pattern(isa, o, prefixes):
                    bad += 1
                    ctx.bad("D1", "%s :: %s" % (rel, key), rel, "%s - the entry can never be selected, so an "
                            "instruction written with exactly these operand kinds is reported as unknown" % prob,
                            rel, key)
        ctx.ok("D1", "%s: %d entries, %d unmatchable patterns" % (rel, len(forms), bad), rel)
    ctx.extra["entries_linted"] = n_entries


def run(ctx):
    C.require_locals(ctx, ctx.func('ArchSemantics.assign_tp_lt'), ['instruction_form'])
    C.require_locals(ctx, ctx.func('ISASemantics.assign_src_dst'), ['instruction_form'])
    C.require_locals(ctx, ctx.func('ISASemantics.get_reg_changes'), ['instruction_form'])
    _r1(ctx)
    _r2_r3(ctx)
    _r4(ctx)
    _r5(ctx)
    _r6(ctx)
    _d1(ctx)
    # R7: the x86 register-kind decision rests on the parser's classifiers (is_vector_register keeps non-GPR registers out
    # of the final `gpr` branch of _is_x86_reg_type): their class tables are the architectural ones (shared with C12-R1)
    from . import c12
    ctx.rule("R7", "register classifiers the matcher relies on (is_vector_register, alias table, numbered-register regex) are the architectural ones (C12-R1)")
    C.embed(ctx, "C12", lambda sub: c12._x86(sub), "R7", "x86 register classes (C12-R1)",
            "a register is put into the wrong class, so an entry declaring another kind of register at that position is accepted "
            "(_is_x86_reg_type ends in `return True` for entries of class gpr)", ctx.func("ParserX86ATT.is_vector_register").where())
