"""Helpers shared by the per-property rule modules."""
import ast
import re

from .. import pm
from ..cfg import CFG, facts_at, guards_of
from ..flow import Flow
from ..pm import U
from ..canon import canon_text as CT
from ..srcmodel import AnalysisError, canon_eq, parent

_cache = {}


def cfg_of(f):
    k = ("cfg", id(f.node))
    if k not in _cache:
        _cache[k] = CFG(f.node)
    return _cache[k]


def flow_of(f):
    k = ("flow", id(f.node))
    if k not in _cache:
        _cache[k] = Flow(f.node, cfg_of(f))
    return _cache[k]


def stmts_in(node, types=None):
    for n in ast.walk(node):
        if isinstance(n, ast.stmt) and (types is None or isinstance(n, types)):
            yield n


def assigns_to(func_node, name):
    """Assignment statements whose (single) target is the local `name`."""
    out = []
    for n in ast.walk(func_node):
        if isinstance(n, ast.Assign):
            for t in n.targets:
                if isinstance(t, ast.Name) and t.id == name:
                    out.append(n)
        elif isinstance(n, (ast.AugAssign, ast.AnnAssign)):
            if isinstance(n.target, ast.Name) and n.target.id == name:
                out.append(n)
    out.sort(key=lambda n: n.lineno)
    return out


def enclosing_loop(node, stop=None):
    p = parent(node)
    while p is not None and p is not stop:
        if isinstance(p, (ast.For, ast.While)):
            return p
        if isinstance(p, (ast.FunctionDef, ast.Lambda)):
            return None
        p = parent(p)
    return None


def root_loop(call):
    """Innermost loop whose *body* contains `call` (a call that is a loop's iterable belongs to the
    loop around that loop)."""
    loop = enclosing_loop(call)
    while isinstance(loop, ast.For) and in_subtree(call, loop.iter):
        loop = enclosing_loop(loop)
    return loop


def enclosing_loops(node):
    out = []
    p = parent(node)
    while p is not None and not isinstance(p, (ast.FunctionDef, ast.AsyncFunctionDef)):
        if isinstance(p, (ast.For, ast.While)):
            out.append(p)
        p = parent(p)
    return out


def in_subtree(node, root):
    cur = node
    while cur is not None:
        if cur is root:
            return True
        cur = parent(cur)
    return False


def is_call_to(node, *names):
    """node is a Call whose dotted callee name ends with one of `names`."""
    if not isinstance(node, ast.Call):
        return False
    cn = pm.call_name(node)
    return any(cn == n or cn.endswith("." + n) for n in names)


def calls_to(root, *names):
    out = [n for n in ast.walk(root) if is_call_to(n, *names)]
    out.sort(key=lambda n: (n.lineno, n.col_offset))
    return out


def arg_of(call, pos, kw=None):
    """Positional argument `pos` or keyword `kw` of a call (None when absent)."""
    if pos is not None and len(call.args) > pos and not any(
        isinstance(a, ast.Starred) for a in call.args[: pos + 1]
    ):
        return call.args[pos]
    if kw:
        for k in call.keywords:
            if k.arg == kw:
                return k.value
    return None


def param_index(f, name):
    ps = f.params()
    if name not in ps:
        return None
    i = ps.index(name)
    if f.cls is not None and ps and ps[0] in ("self", "cls"):
        i -= 1
    return i


def bounds_on(test, var):
    """Bounds that the comparisons of `test` put on the expression text `var`:
    (boolean operator 'and'/'or'/None, {(op, frozenset(affine items of the other side))}) with op normalised to
    `var OP other`. None when `test` is not a (conjunction/disjunction of) single comparison(s) with `var` alone on one side."""
    flip = {"Lt": "Gt", "Gt": "Lt", "LtE": "GtE", "GtE": "LtE", "Eq": "Eq", "NotEq": "NotEq"}
    if isinstance(test, ast.BoolOp):
        parts, bop = test.values, ("and" if isinstance(test.op, ast.And) else "or")
    else:
        parts, bop = [test], None
    out = set()
    for p in parts:
        if not (isinstance(p, ast.Compare) and len(p.ops) == 1):
            return None
        op = type(p.ops[0]).__name__
        l, r = p.left, p.comparators[0]
        if U(l) == var:
            other = r
        elif U(r) == var and op in flip:
            other, op = l, flip[op]
        else:
            return None
        out.add((op, frozenset((k, round(v, 9)) for k, v in affine(other).items() if v != 0)))
    return bop, out


def zero_vector(e):
    """Length expression text when `e` is a list of zeros ([0.0] * n, n * [0.0], [0.0 for _ in ...]), else None."""
    if isinstance(e, ast.BinOp) and isinstance(e.op, ast.Mult):
        for lst, n in ((e.left, e.right), (e.right, e.left)):
            if isinstance(lst, ast.List) and len(lst.elts) == 1 and const_num(lst.elts[0]) == 0:
                return U(n)
    if isinstance(e, ast.ListComp) and const_num(e.elt) == 0 and len(e.generators) == 1 and not e.generators[0].ifs:
        it = e.generators[0].iter
        if is_call_to(it, "range") and len(it.args) == 1:
            return U(it.args[0])
        return "len(%s)" % U(it)
    return None


def is_zero_vector_assign(s, target):
    return isinstance(s, ast.Assign) and len(s.targets) == 1 and U(s.targets[0]) == target and zero_vector(s.value) is not None


def holds(facts, text, polarity=True):
    """Is the fact `text` (canonical unparse) with `polarity` among `facts`?"""
    for e, pol in facts:
        if U(e) == text and pol == polarity:
            return True
    return False


def is_none_test(expr):
    """(subject_text, is_none: bool) for `x is None`, `x is not None`, `x == None`, `x != None`."""
    if isinstance(expr, ast.Compare) and len(expr.ops) == 1:
        c = expr.comparators[0]
        if isinstance(c, ast.Constant) and c.value is None:
            if isinstance(expr.ops[0], (ast.Is, ast.Eq)):
                return U(expr.left), True
            if isinstance(expr.ops[0], (ast.IsNot, ast.NotEq)):
                return U(expr.left), False
    return None


def nonnull_facts(facts):
    """Set of expression texts known to be not None / truthy from the facts."""
    out = set()
    for e, pol in facts:
        t = is_none_test(e)
        if t is not None:
            subj, isnone = t
            if isnone != pol:  # (x is None, False) or (x is not None, True)
                out.add(subj)
        elif pol:
            out.add(U(e))  # truthiness implies not None
    return out


def const_num(node):
    """Numeric value of a literal (with unary minus), else None."""
    if isinstance(node, ast.Constant) and isinstance(node.value, (int, float)) and not isinstance(
        node.value, bool
    ):
        return node.value
    if isinstance(node, ast.UnaryOp) and isinstance(node.op, ast.USub):
        v = const_num(node.operand)
        return -v if v is not None else None
    return None


def flatten_add(node):
    """Affine view: list of (sign, term) of a +/- expression tree."""
    if isinstance(node, ast.BinOp) and isinstance(node.op, (ast.Add, ast.Sub)):
        left = flatten_add(node.left)
        right = flatten_add(node.right)
        if isinstance(node.op, ast.Sub):
            right = [(-s, t) for s, t in right]
        return left + right
    if isinstance(node, ast.UnaryOp) and isinstance(node.op, ast.USub):
        return [(-s, t) for s, t in flatten_add(node.operand)]
    return [(1, node)]


def affine(node):
    """E7: coefficient map {term text: coeff} plus constant under key 1."""
    out = {}
    for s, t in flatten_add(node):
        c = const_num(t)
        if c is not None:
            out[1] = out.get(1, 0) + s * c
            continue
        coeff = 1
        term = t
        if isinstance(t, ast.BinOp) and isinstance(t.op, ast.Mult):
            lc, rc = const_num(t.left), const_num(t.right)
            if lc is not None:
                coeff, term = lc, t.right
            elif rc is not None:
                coeff, term = rc, t.left
        k = U(term)
        out[k] = out.get(k, 0) + s * coeff
    out = {k: v for k, v in out.items() if v != 0 or k == 1}
    out.setdefault(1, 0)
    return out


def affine_eq(a, b):
    fa, fb = affine(a), affine(b)
    fa.setdefault(1, 0)
    fb.setdefault(1, 0)
    return fa == fb


def literal(node, what="literal"):
    try:
        return ast.literal_eval(node)
    except Exception:
        raise AnalysisError("%s is not a literal: %s" % (what, U(node)[:120]))


def str_consts(node):
    return [n.value for n in ast.walk(node) if isinstance(n, ast.Constant) and isinstance(n.value, str)]


def first_lineno(node):
    return getattr(node, "lineno", 0)


def compare_parts(node):
    """For a simple two-operand Compare return (left, op class name, right)."""
    if isinstance(node, ast.Compare) and len(node.ops) == 1:
        return node.left, type(node.ops[0]).__name__, node.comparators[0]
    return None


def local_names(f):
    """Names bound in function f (parameters, assignment / loop / with / comprehension targets)."""
    out = set(f.params())
    for n in ast.walk(f.node):
        if isinstance(n, ast.Name) and isinstance(n.ctx, (ast.Store, ast.Del)):
            out.add(n.id)
        elif isinstance(n, ast.arg):
            out.add(n.arg)
    return out


def require_locals(ctx, f, names, rule=""):
    """The rules below refer to these locals of `f` by name. If one no longer exists (renamed), the rule
    cannot judge the function: ANALYSIS-ERROR (exit 2), never a violation."""
    have = local_names(f)
    missing = [n for n in names if n not in have]
    if missing:
        ctx.broken("%s: %s no longer binds the local name(s) %s that the rule refers to (renamed?) - the rule must "
                   "be re-anchored" % (rule or "anchor", f.qname, missing))


def presence_tests(func_node, name):
    """How a function tests whether its optional numeric value `name` is present.
    -> list of (node, verdict): True = `name is None` / `name is not None` (0 stays a value),
    False = truthiness (`if name`, `not name`, `bool(name)`, `name or d`, `x if name else y`): 0 / 0.0 counts as absent,
    None = the value is tested in another way."""
    out = []

    def classify(t):
        if isinstance(t, ast.UnaryOp) and isinstance(t.op, ast.Not):
            return classify(t.operand)
        if isinstance(t, ast.Name) and t.id == name:
            return False
        if isinstance(t, ast.Call) and isinstance(t.func, ast.Name) and t.func.id == "bool" and len(t.args) == 1 and U(t.args[0]) == name:
            return False
        if isinstance(t, ast.Compare) and len(t.ops) == 1:
            l, r = t.left, t.comparators[0]
            if isinstance(t.ops[0], (ast.Is, ast.IsNot)) and {U(l), U(r)} == {name, "None"}:
                return True
            if name in (U(l), U(r)):
                return None
        return "n/a"

    for n in ast.walk(func_node):
        tests = []
        if isinstance(n, (ast.If, ast.IfExp, ast.While)):
            tests = conj_parts(n.test)
        elif isinstance(n, ast.BoolOp) and not isinstance(getattr(n, "_parent", None), (ast.If, ast.IfExp, ast.While, ast.BoolOp)):
            tests = n.values[:-1]
        for t in tests:
            v = classify(t)
            if v != "n/a":
                out.append((n, v))
    return out


def conj_parts(t):
    if isinstance(t, ast.BoolOp):
        out = []
        for v in t.values:
            out.extend(conj_parts(v))
        return out
    return [t]


def aggregator_shape(ctx):
    """Semantic shape of ArchSemantics.get_throughput_sum(kernel), whatever its spelling:
        result[c] = round(sum(column c of rows), digits)   with   rows = [<elt> for i in kernel if <filter>]
    Returns a dict: rows_elt (text, instr var normalised to I), filter (list of condition texts, normalised), digits (node),
    rounds (all round() calls), ok (bool: recognised), why."""
    s = ctx.func("ArchSemantics.get_throughput_sum")
    k = s.params()[0]
    out = {"func": s, "ok": False, "why": "", "rows_elt": None, "filter": None, "digits": None, "inner_rounds": []}
    rets = [r for r in ast.walk(s.node) if isinstance(r, ast.Return) and r.value is not None]
    if len(rets) != 1:
        out["why"] = "%d return statements" % len(rets)
        return out
    v = flow_of(s).subst(rets[0].value)
    # strip list()/tuple()
    while isinstance(v, ast.Call) and isinstance(v.func, ast.Name) and v.func.id in ("list", "tuple") and len(v.args) == 1:
        v = v.args[0]
    col_sum = None      # expression for the per-column iterable: zip(*rows)
    digits = None
    if isinstance(v, (ast.ListComp, ast.GeneratorExp)) and len(v.generators) == 1 and not v.generators[0].ifs:
        g = v.generators[0]
        b = pm.match("round(M_x, M_d)", v.elt)
        if b is not None:
            digits = b["M_d"]
            x, it = b["M_x"], g.iter
            bs = pm.match("sum(M_g)", x) or pm.match("math.fsum(M_g)", x)
            if bs is not None and U(bs["M_g"]) == U(g.target):
                col_sum = it                                    # [round(sum(col), d) for col in zip(*rows)]
            elif bs is not None and isinstance(bs["M_g"], (ast.GeneratorExp, ast.ListComp)) and len(bs["M_g"].generators) == 1 \
                    and U(bs["M_g"].generators[0].iter) == U(g.target) and not bs["M_g"].generators[0].ifs:
                col_sum = it                                    # ... sum(<f(v)> for v in col): f is looked at below
                per_value = bs["M_g"].elt
                if U(per_value) != U(bs["M_g"].generators[0].target):
                    out["per_value"] = per_value
            elif U(x) == U(g.target) and pm.match("map(sum, M_z)", it) is not None:
                col_sum = pm.match("map(sum, M_z)", it)["M_z"]  # [round(t, d) for t in map(sum, zip(*rows))]
    if col_sum is None:
        b = pm.match("map(lambda M_c: round(sum(M_c), M_d), M_z)", v)
        if b is not None:
            digits, col_sum = b["M_d"], b["M_z"]
    if col_sum is None:
        out["why"] = "result is not [round(sum(column), digits) for column in zip(*rows)]: %s" % U(v)[:120]
        return out
    bz = pm.match("zip(*M_rows)", col_sum)
    if bz is None:
        out["why"] = "columns are not zip(*rows): %s" % U(col_sum)[:80]
        return out
    rows = bz["M_rows"]
    while isinstance(rows, ast.Call) and isinstance(rows.func, ast.Name) and rows.func.id in ("list", "tuple") and len(rows.args) == 1:
        rows = rows.args[0]
    if not (isinstance(rows, (ast.ListComp, ast.GeneratorExp)) and len(rows.generators) == 1 and U(rows.generators[0].iter) == k):
        out["why"] = "rows are not a comprehension over the kernel: %s" % U(rows)[:80]
        return out
    g = rows.generators[0]
    var = U(g.target)
    norm = lambda e: re.sub(r"\b%s\b" % re.escape(var), "I", U(e))
    out["rows_elt"] = norm(rows.elt)
    out["filter"] = sorted(norm(c) for cc in g.ifs for c in conj_parts(cc))
    out["digits"] = digits
    out["inner_rounds"] = [c for c in ast.walk(rows) if isinstance(c, ast.Call) and isinstance(c.func, ast.Name) and c.func.id == "round"]
    pv = out.get("per_value")
    if pv is not None:
        r_ = [c for c in ast.walk(pv) if isinstance(c, ast.Call) and isinstance(c.func, ast.Name) and c.func.id == "round"]
        if r_:
            out["inner_rounds"] += r_
        else:
            out["why"] = "the summed per-line values are transformed by `%s`" % U(pv)[:60]
            return out
    out["ok"] = True
    return out


def const_value(ctx, f, e):
    """Numeric value of a literal, or of a module / class constant bound to one (named constants)."""
    v = const_num(e)
    if v is not None:
        return v
    if isinstance(e, ast.Name) and e.id in f.module.globals:
        return const_num(f.module.globals[e.id])
    if isinstance(e, ast.Attribute) and isinstance(e.value, ast.Name):
        owner = f.cls.name if (e.value.id in ("self", "cls") and f.cls is not None) else e.value.id
        if owner in ctx.repo.classes:
            for c in ctx.repo.mro(owner):
                if e.attr in ctx.repo.classes[c].class_attrs:
                    return const_num(ctx.repo.classes[c].class_attrs[e.attr])
    return None


_ORD_NEG = {ast.Lt: ast.GtE, ast.LtE: ast.Gt, ast.Gt: ast.LtE, ast.GtE: ast.Lt}


def _int_valued(e):
    return (isinstance(e, ast.Call) and isinstance(e.func, ast.Name) and e.func.id == "len") or (
        isinstance(e, ast.Constant) and isinstance(e.value, int) and not isinstance(e.value, bool))


def _fold_order(e, pol):
    """(not (a <= b)) is (a > b) when both sides are integers (a len(..) / an int literal): totally ordered values"""
    if (not pol) and isinstance(e, ast.Compare) and len(e.ops) == 1 and type(e.ops[0]) in _ORD_NEG \
            and _int_valued(e.left) and _int_valued(e.comparators[0]):
        return ast.copy_location(ast.Compare(left=e.left, ops=[_ORD_NEG[type(e.ops[0])]()], comparators=e.comparators), e), True
    return e, pol


def norm_facts(node, stop=None):
    """facts_at(node) as a set of (canonical text, polarity), with negative comparison operators folded into the polarity:
    (a != b, False) == (a == b, True); `not x` likewise. Use this instead of looking for an `if` with a given test: it does
    not matter whether a condition is an if/elif branch, a guard clause (`if not c: raise`) before the statement, or part
    of a conjunction."""
    neg = {ast.NotEq: ast.Eq, ast.NotIn: ast.In, ast.IsNot: ast.Is}
    out = set()
    for e, pol in facts_at(node, stop):
        while isinstance(e, ast.UnaryOp) and isinstance(e.op, ast.Not):
            e, pol = e.operand, not pol
        if isinstance(e, ast.Compare) and len(e.ops) == 1 and type(e.ops[0]) in neg:
            e = ast.Compare(left=e.left, ops=[neg[type(e.ops[0])]()], comparators=e.comparators)
            pol = not pol
        e, pol = _fold_order(e, pol)
        out.add((CT(U(e)), pol))
    return out


def norm_fact_nodes(node, stop=None):
    """facts_at(node) as a list of (expression node, polarity) with negations folded into the polarity (see norm_facts)."""
    neg = {ast.NotEq: ast.Eq, ast.NotIn: ast.In, ast.IsNot: ast.Is}
    out = []
    for e, pol in facts_at(node, stop):
        while isinstance(e, ast.UnaryOp) and isinstance(e.op, ast.Not):
            e, pol = e.operand, not pol
        if isinstance(e, ast.Compare) and len(e.ops) == 1 and type(e.ops[0]) in neg:
            e = ast.copy_location(ast.Compare(left=e.left, ops=[neg[type(e.ops[0])]()], comparators=e.comparators), e)
            pol = not pol
        e, pol = _fold_order(e, pol)
        out.append((e, pol))
    return out


def holds_at(node, cond_src, stop=None):
    """Is the condition (source text) among the facts that hold at `node`?"""
    return (CT(cond_src), True) in norm_facts(node, stop)


def mentions(ctx, f, node, word):
    """Does `node` mention `word` (e.g. a flag name), directly or through a class / module constant it references?"""
    if word in U(node):
        return True
    for x in ast.walk(node):
        v = None
        if isinstance(x, ast.Attribute) and isinstance(x.value, ast.Name):
            owner = f.cls.name if (x.value.id in ("self", "cls") and f.cls is not None) else x.value.id
            if owner in ctx.repo.classes:
                for c in ctx.repo.mro(owner):
                    v = v or ctx.repo.classes[c].class_attrs.get(x.attr)
        elif isinstance(x, ast.Name) and x.id in f.module.globals:
            v = f.module.globals[x.id]
        if v is not None and word in U(v):
            return True
    return False


def norm_facts_of_test(test):
    """The conjunct facts a test establishes on its true edge, normalised like norm_facts (negative comparison operators
    folded into the polarity)."""
    from ..cfg import conjuncts
    neg = {ast.NotEq: ast.Eq, ast.NotIn: ast.In, ast.IsNot: ast.Is}
    out = set()
    for e, pol in conjuncts(test, True):
        while isinstance(e, ast.UnaryOp) and isinstance(e.op, ast.Not):
            e, pol = e.operand, not pol
        if isinstance(e, ast.Compare) and len(e.ops) == 1 and type(e.ops[0]) in neg:
            e = ast.Compare(left=e.left, ops=[neg[type(e.ops[0])]()], comparators=e.comparators)
            pol = not pol
        out.add((CT(U(e)), pol))
    return out


def cond_blocks(f, loop, cond_texts, target):
    """Is there an `if` in `loop` testing one of the conditions (either polarity, branch or guard clause) such that, when the
    condition is TRUE, `target` can no longer be reached in the same iteration?  (`if c: continue` + REST, `if not c: REST`,
    `if c: pass else: REST` ... all block).  Returns the blocking if-node or None."""
    cfg = cfg_of(f)
    want = {}
    for ct in cond_texts:
        wf = norm_facts_of_test(ast.parse(ct, mode="eval").body)
        if len(wf) == 1:
            (wt, wpol), = wf
            want[wt] = wpol
    tgt = cfg.node_of(target)
    for n in ast.walk(loop):
        if not isinstance(n, ast.If):
            continue
        # which way does the `if` go when the wanted condition is true?  a single test decides it; so does a disjunct of
        # `a or b` (condition true => test true) and a conjunct of `a and b` whose truth needs the condition false
        # (condition true => test false)
        way = None
        parts = [(n.test, "single")]
        if isinstance(n.test, ast.BoolOp):
            parts += [(v, "or" if isinstance(n.test.op, ast.Or) else "and") for v in n.test.values]
        for part, mode in parts:
            facts = norm_facts_of_test(part)
            if len(facts) != 1:
                continue
            (t, pol), = facts
            if t not in want:
                continue
            same = pol == want[t]          # part is true exactly when the wanted condition is true
            if mode == "single":
                way = same
                break
            elif mode == "or" and same:
                way = True
            elif mode == "and" and not same:
                way = False
        if way is None:
            continue
        succs = cfg.succ_on(n, way)         # the edge taken when the condition itself is true
        reach = False
        for s_ in succs:
            if s_ is tgt or (not isinstance(s_, str) and cfg.reachable(s_, tgt, within=loop)):
                reach = True
        if not reach:
            return n
    return None


# ---- string building in one form --------------------------------------------------------------------------------------
import string as _string


def _fmt_parts(tmpl):
    """[(literal, field or None)] of a format template with plain auto-numbered fields only, else None"""
    out = []
    try:
        for lit, field, spec, conv in _string.Formatter().parse(tmpl):
            if field is None:
                out.append((lit, None))
            elif field == "" and not spec and not conv:
                out.append((lit, ""))
            else:
                return None
    except ValueError:
        return None
    return out


def str_parts(e):
    """The string `e` builds, as a list of parts - str literals and expression nodes - for concatenations (+), f-strings
    and "..{}..".format(..) with plain fields; None when `e` is not such a construction."""
    if isinstance(e, ast.Constant) and isinstance(e.value, str):
        return [e.value]
    if isinstance(e, ast.BinOp) and isinstance(e.op, ast.Add):
        l, r = str_parts(e.left), str_parts(e.right)
        if l is None and r is None:
            return None
        return (l if l is not None else [e.left]) + (r if r is not None else [e.right])
    if isinstance(e, ast.JoinedStr):
        out = []
        for v in e.values:
            if isinstance(v, ast.Constant):
                out.append(str(v.value))
            elif isinstance(v, ast.FormattedValue) and v.format_spec is None and v.conversion == -1:
                out.extend(str_parts(v.value) or [v.value])
            else:
                return None
        return out
    if isinstance(e, ast.Call) and isinstance(e.func, ast.Attribute) and e.func.attr == "format" and isinstance(e.func.value, ast.Constant) \
            and isinstance(e.func.value.value, str) and not e.keywords:
        fp = _fmt_parts(e.func.value.value)
        if fp is None or sum(1 for _, f in fp if f is not None) != len(e.args):
            return None
        out, i = [], 0
        for lit, f in fp:
            if lit:
                out.append(lit)
            if f is not None:
                out.extend(str_parts(e.args[i]) or [e.args[i]])
                i += 1
        return out
    return None


class _NormStr(ast.NodeTransformer):
    def generic_visit(self, node):
        parts = str_parts(node) if isinstance(node, (ast.BinOp, ast.JoinedStr, ast.Call)) else None
        if parts is not None and any(isinstance(p_, str) for p_ in parts):
            tmpl, args = "", []
            for p_ in parts:
                if isinstance(p_, str):
                    tmpl += p_.replace("{", "{{").replace("}", "}}")
                else:
                    tmpl += "{}"
                    args.append(self.visit(p_))
            if not args:
                return ast.copy_location(ast.Constant(value=tmpl.replace("{{", "{").replace("}}", "}")), node)
            new = ast.Call(func=ast.Attribute(value=ast.Constant(value=tmpl), attr="format", ctx=ast.Load()), args=args, keywords=[])
            return ast.fix_missing_locations(ast.copy_location(new, node))
        return super().generic_visit(node)


def norm_strings(node):
    """copy of `node` in which every string built by +, f-string or plain .format is written "template".format(holes)"""
    from ..flow import clone
    return _NormStr().visit(clone(node))


def implied_facts(f, node, stop=None):
    """norm_facts(node) plus what a None test on a local implies about how the local was computed: when `x is not None`
    holds at `node` and the only definition of x reaching it is `x = None if c else e` (or `e if c else None`), then c is
    false (true) there; conjunctions / disjunctions are split where the polarity allows."""
    out = set(norm_facts(node, stop))
    flow = flow_of(f)

    def add(e, pol):
        while isinstance(e, ast.UnaryOp) and isinstance(e.op, ast.Not):
            e, pol = e.operand, not pol
        if isinstance(e, ast.BoolOp) and ((isinstance(e.op, ast.Or) and not pol) or (isinstance(e.op, ast.And) and pol)):
            for v in e.values:
                add(v, pol)
            return
        neg = {ast.NotEq: ast.Eq, ast.NotIn: ast.In, ast.IsNot: ast.Is}
        if isinstance(e, ast.Compare) and len(e.ops) == 1 and type(e.ops[0]) in neg:
            e = ast.Compare(left=e.left, ops=[neg[type(e.ops[0])]()], comparators=e.comparators)
            pol = not pol
        out.add((CT(U(e)), pol))

    for e, pol in norm_fact_nodes(node, stop):
        if isinstance(e, ast.Compare) and len(e.ops) == 1 and isinstance(e.ops[0], ast.Is) and isinstance(e.left, ast.Name) \
                and isinstance(e.comparators[0], ast.Constant) and e.comparators[0].value is None and not pol:
            try:
                ds = flow.reaching(node, e.left.id)
            except KeyError:
                ds = []
            # (a definition `x = None` cannot be the one in force where x is not None)
            ds = [d for d in ds if not (d.kind == "assign" and isinstance(d.value, ast.Constant) and d.value.value is None)]
            if len(ds) == 1 and ds[0].kind == "assign" and isinstance(ds[0].value, ast.IfExp):
                v = ds[0].value
                isnone = lambda x: isinstance(x, ast.Constant) and x.value is None
                if isnone(v.body) and not isnone(v.orelse):
                    add(v.test, False)
                elif isnone(v.orelse) and not isnone(v.body):
                    add(v.test, True)
    return out


def embed(ctx, prop, fn, rule, label, why, where=""):
    """Run `fn(sub_ctx)` - a rule of property `prop` - as an obligation of the current property under the id `rule`:
    its discharged obligations, findings and not-understood constructs are relayed (prefixed with `label`)."""
    from .. import report as _report
    sub = _report.Ctx(prop, ctx.repo, ctx.tier, ctx.data)
    try:
        fn(sub)
    except AnalysisError as e:
        ctx.unknown(rule, label, where, str(e)[:300])
        for fd in sub.findings:
            ctx.bad(rule, "%s: %s" % (label, fd.construct), fd.where, why + ": " + fd.detail, fd.scope, fd.construct)
        return sub
    for ob in sub.obligations:
        if ob["status"] in ("violated", "not-understood"):
            continue
        new_ob = dict(ob)
        new_ob["rule"] = rule
        new_ob["instance"] = "%s: %s" % (label, ob["instance"])
        ctx.obligations.append(new_ob)
    for fd in sub.findings:
        ctx.bad(rule, "%s: %s" % (label, fd.construct), fd.where, why + ": " + fd.detail, fd.scope, fd.construct)
    for u in getattr(sub, "unknowns", []):
        ctx.unknown(rule, label, where, u)
    ctx.functions |= sub.functions
    ctx.files |= sub.files
    return sub


def effective_argument(caller, call, callee, param):
    """What the callee's parameter `param` stands for inside the callee for this call, in the caller's terms (canonical
    text): the argument that is passed; or, when it is omitted / None and the callee re-binds the parameter at its start
    (`p = E if p is None else p`, `if p is None: p = E`), the expression E with the callee's other parameters replaced by
    the call's arguments. `bool(x)` is x and `getattr(x, 'a', <default>)` is `x.a` here (truth value of an attribute that
    exists). None when it cannot be determined."""
    params = [p for p in callee.params() if p not in ("self", "cls")]
    actual = {}
    for p_, a_ in zip(params, call.args):
        actual[p_] = a_
    for k_ in call.keywords:
        if k_.arg:
            actual[k_.arg] = k_.value
    a = callee.node.args
    dflt = dict(zip([x.arg for x in a.args][len(a.args) - len(a.defaults):], a.defaults))
    dflt.update({x.arg: d for x, d in zip(a.kwonlyargs, a.kw_defaults) if d is not None})
    passed = actual.get(param, dflt.get(param))
    if passed is None:
        return None
    if not (isinstance(passed, ast.Constant) and passed.value is None):
        return CT(U(passed))
    # omitted / None: look for the re-binding
    E = None
    for st in callee.node.body:
        if isinstance(st, ast.Assign) and len(st.targets) == 1 and U(st.targets[0]) == param and isinstance(st.value, ast.IfExp):
            facts = norm_facts_of_test(st.value.test)
            if facts == {(CT("%s is None" % param), True)} and U(st.value.orelse) == param:
                E = st.value.body
            elif facts == {(CT("%s is None" % param), False)} and U(st.value.body) == param:
                E = st.value.orelse
        elif isinstance(st, ast.If) and not st.orelse and norm_facts_of_test(st.test) == {(CT("%s is None" % param), True)}:
            for s2 in st.body:
                if isinstance(s2, ast.Assign) and U(s2.targets[0]) == param:
                    E = s2.value
        if E is not None:
            break
    if E is None:
        return "None"

    def simp(e):
        while True:
            if isinstance(e, ast.Call) and isinstance(e.func, ast.Name) and e.func.id == "bool" and len(e.args) == 1:
                e = e.args[0]
            elif isinstance(e, ast.Call) and isinstance(e.func, ast.Name) and e.func.id == "getattr" and len(e.args) in (2, 3) \
                    and isinstance(e.args[1], ast.Constant) and isinstance(e.args[1].value, str):
                e = ast.Attribute(value=e.args[0], attr=e.args[1].value, ctx=ast.Load())
            else:
                return e
    from ..flow import clone
    E = simp(clone(E))

    class R(ast.NodeTransformer):
        def visit_Name(self, n):
            if n.id in actual and isinstance(n.ctx, ast.Load):
                return clone(actual[n.id])
            return n
    return CT(U(ast.fix_missing_locations(R().visit(E))))


def empty_roles_value(ctx, fn, v):
    """Does the expression `v` (in function `fn`) evaluate to {'source': [], 'destination': [], 'src_dst': []}?  Folded with
    the class / module constants it refers to (E9), so a literal, a dict comprehension over the role names, a (deep) copy
    of a constant, or a comprehension over a constant's items all count. True / False / None (not foldable)."""
    from .. import consteval
    e = v
    while True:
        if isinstance(e, ast.Call) and (pm.call_name(e) or "").split(".")[-1] in ("deepcopy", "copy", "dict") and len(e.args) == 1:
            e = e.args[0]
        elif isinstance(e, ast.Call) and isinstance(e.func, ast.Attribute) and e.func.attr == "copy" and not e.args:
            e = e.func.value
        else:
            break
    g = dict(fn.module.globals)
    selfobj = consteval.Obj()
    if fn.cls is not None:
        for k in ctx.repo.mro(fn.cls.name):
            for a_, val in ctx.repo.cls(k).class_attrs.items():
                if a_ in selfobj:
                    continue
                try:
                    selfobj[a_] = consteval.ev(val, {"__globals__": g})
                except (consteval.Unsupported, consteval.Raised):
                    pass
    env = {"self": selfobj, "cls": selfobj, "__globals__": g}
    if fn.cls is not None:
        env[fn.cls.name] = selfobj
    try:
        # `.items()` / `.keys()` of a folded dict
        class _Items(ast.NodeTransformer):
            def visit_Call(self, n):
                self.generic_visit(n)
                if isinstance(n.func, ast.Attribute) and n.func.attr in ("items", "keys", "values") and not n.args:
                    return ast.copy_location(ast.Call(func=ast.Name(id="list", ctx=ast.Load()), args=[ast.Call(
                        func=ast.Attribute(value=n.func.value, attr="__%s__" % n.func.attr, ctx=ast.Load()), args=[], keywords=[])], keywords=[]), n)
                return n
        val = _fold_with_items(e, env)
    except (consteval.Unsupported, consteval.Raised):
        return None
    if not isinstance(val, dict):
        return None
    return set(val) == {"source", "destination", "src_dst"} and all(isinstance(x, (list, tuple)) and len(x) == 0 for x in val.values())


def _fold_with_items(e, env):
    """consteval.ev with `<dict>.items()/keys()/values()` supported"""
    from .. import consteval
    from ..flow import clone
    e = clone(e)
    holders = {}

    class T(ast.NodeTransformer):
        def visit_Call(self, n):
            self.generic_visit(n)
            if isinstance(n.func, ast.Attribute) and n.func.attr in ("items", "keys", "values") and not n.args and not n.keywords:
                base = consteval.ev(n.func.value, env)
                if isinstance(base, dict):
                    nm = "__fold%d__" % len(holders)
                    holders[nm] = [tuple(x) if n.func.attr == "items" else x for x in getattr(base, n.func.attr)()]
                    return ast.copy_location(ast.Name(id=nm, ctx=ast.Load()), n)
            return n
    e = T().visit(e)
    env2 = dict(env)
    env2.update(holders)
    # comprehension targets that are tuples: unpack by hand for dict comprehensions
    if isinstance(e, ast.DictComp) and len(e.generators) == 1 and not e.generators[0].ifs:
        g = e.generators[0]
        items = consteval.ev(g.iter, env2)
        out = {}
        for it in items:
            env3 = dict(env2)
            if isinstance(g.target, ast.Name):
                env3[g.target.id] = it
            elif isinstance(g.target, ast.Tuple) and all(isinstance(t, ast.Name) for t in g.target.elts) and len(g.target.elts) == len(it):
                for t, x in zip(g.target.elts, it):
                    env3[t.id] = x
            else:
                raise consteval.Unsupported("comprehension target")
            out[consteval.ev(e.key, env3)] = consteval.ev(e.value, env3)
        return out
    return consteval.ev(e, env2)
