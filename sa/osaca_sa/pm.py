"""Structural pattern matching over Python ASTs.

A pattern is Python source. Identifiers starting with ``M_`` are metavariables that bind a whole
sub-tree (``M__`` is an anonymous wildcard); a repeated metavariable must bind equal sub-trees
(equality = identical canonical unparse). ``REST_`` as the last element of an argument /
element list matches any remaining elements. An attribute named ``M_x`` binds the attribute name.
Matching ignores expression contexts (Load/Store), positions and formatting.
"""
import ast
import functools


def U(node):
    """Canonical text of a node (formatting- and comment-independent)."""
    if node is None:
        return "None"
    if isinstance(node, list):
        return "; ".join(U(n) for n in node)
    return ast.unparse(node)


@functools.lru_cache(maxsize=None)
def _parse(pattern):
    from .canon import canonicalise

    tree = canonicalise(ast.parse(pattern.strip()), pattern=True)
    if len(tree.body) != 1:
        raise ValueError("pattern must be one statement/expression: %r" % pattern)
    stmt = tree.body[0]
    if isinstance(stmt, ast.Expr):
        return stmt.value
    return stmt


def _is_meta(name):
    return isinstance(name, str) and name.startswith("M_")


def _match_list(pl, nl, b):
    if pl and isinstance(pl[-1], ast.Name) and pl[-1].id == "REST_":
        pl = pl[:-1]
        if len(nl) < len(pl):
            return False
        nl = nl[: len(pl)]
    elif pl and isinstance(pl[-1], ast.Expr) and isinstance(pl[-1].value, ast.Name) and pl[
        -1
    ].value.id == "REST_":
        pl = pl[:-1]
        if len(nl) < len(pl):
            return False
        nl = nl[: len(pl)]
    if len(pl) != len(nl):
        return False
    return all(_m(p, n, b) for p, n in zip(pl, nl))


def _m(p, n, b):
    if isinstance(p, ast.Name) and _is_meta(p.id):
        if p.id == "M__":
            return True
        if not isinstance(n, ast.AST):
            return False
        if p.id in b:
            if isinstance(b[p.id], str):
                return isinstance(n, ast.Name) and n.id == b[p.id]
            return U(b[p.id]) == U(n)
        b[p.id] = n
        return True
    if isinstance(p, ast.Expr) and isinstance(p.value, ast.Name) and _is_meta(p.value.id):
        # statement-level metavariable
        if p.value.id == "M__":
            return True
        b[p.value.id] = n
        return True
    if type(p) is not type(n):
        return False
    if isinstance(p, ast.Compare) and len(p.ops) == 1 and len(n.ops) == 1:
        flip = {ast.Lt: ast.Gt, ast.Gt: ast.Lt, ast.LtE: ast.GtE, ast.GtE: ast.LtE, ast.Eq: ast.Eq, ast.NotEq: ast.NotEq}
        pt, nt = type(p.ops[0]), type(n.ops[0])
        if pt in flip:
            # ==, != and the four inequalities are matched in both operand orders (the code side is in canonical order, the
            # pattern's metavariables have no text to order by)
            for (nl, nr, want) in ((n.left, n.comparators[0], pt), (n.comparators[0], n.left, flip[pt])):
                if nt is not want:
                    continue
                trial = dict(b)
                if _m(p.left, nl, trial) and _m(p.comparators[0], nr, trial):
                    b.update(trial)
                    return True
            return False
    for field in p._fields:
        if field in ("ctx", "type_comment", "kind"):
            continue
        pv = getattr(p, field, None)
        nv = getattr(n, field, None)
        if field in ("attr", "arg", "name") and _is_meta(pv):
            if pv != "M__":
                if not isinstance(nv, str):
                    return False
                if pv in b:
                    old = b[pv]
                    if isinstance(old, ast.Name):
                        old = old.id
                    if old != nv:
                        return False
                else:
                    b[pv] = nv
            continue
        if isinstance(pv, list):
            if not isinstance(nv, list) or not _match_list(pv, nv, b):
                return False
        elif isinstance(pv, ast.AST):
            if not isinstance(nv, ast.AST) or not _m(pv, nv, b):
                return False
        else:
            if pv != nv:
                return False
    return True


class Bindings(dict):
    """Metavariable bindings of a successful match (truthy even when empty)."""

    def __bool__(self):
        return True


def match(pattern, node):
    """Return the bindings if `node` matches `pattern`, else None."""
    p = _parse(pattern) if isinstance(pattern, str) else pattern
    if isinstance(node, ast.Expr) and not isinstance(p, ast.stmt):
        node = node.value
    b = Bindings()
    return b if _m(p, node, b) else None


def find(pattern, root):
    """All (node, bindings) below `root` (inclusive) matching `pattern`, in source order."""
    p = _parse(pattern) if isinstance(pattern, str) else pattern
    out = []
    roots = root if isinstance(root, list) else [root]
    for r in roots:
        for node in ast.walk(r):
            if type(node) is not type(p) and not (
                isinstance(p, ast.Name) and _is_meta(p.id) and isinstance(node, ast.expr)
            ):
                continue
            b = Bindings()
            if _m(p, node, b):
                out.append((node, b))
    out.sort(key=lambda t: (getattr(t[0], "lineno", 0), getattr(t[0], "col_offset", 0)))
    return out


def find_any(patterns, root):
    out = []
    seen = set()
    for p in patterns:
        for node, b in find(p, root):
            if id(node) not in seen:
                seen.add(id(node))
                out.append((node, b))
    out.sort(key=lambda t: (getattr(t[0], "lineno", 0), getattr(t[0], "col_offset", 0)))
    return out


def contains(pattern, root):
    return bool(find(pattern, root))


def names_in(node):
    return {n.id for n in ast.walk(node) if isinstance(n, ast.Name)}


def attrs_in(node):
    return {n.attr for n in ast.walk(node) if isinstance(n, ast.Attribute)}


def calls_in(node):
    return [n for n in ast.walk(node) if isinstance(n, ast.Call)]


def call_name(call):
    """Dotted name of a call's callee, e.g. 'self._machine_model.get_instruction'."""
    if not isinstance(call, ast.Call):
        return ""
    f = call.func
    parts = []
    while isinstance(f, ast.Attribute):
        parts.append(f.attr)
        f = f.value
    if isinstance(f, ast.Name):
        parts.append(f.id)
    else:
        parts.append("<expr>")
    return ".".join(reversed(parts))


def const_value(node):
    """Literal value of a node, or raise ValueError."""
    return ast.literal_eval(node)


def is_const(node, value=None):
    if not isinstance(node, ast.Constant):
        return False
    return True if value is None else (node.value == value and type(node.value) is type(value))
