"""Mutant tables for the self-test (thorough tier): one rule instance broken per mutant.

Each mutant is an exact-text edit of one file of /repo's current tree (the text must occur exactly
once, else the mutant is reported as stale), must still compile, and must make the named rule
report a finding that the unmodified tree does not have. Reverting each `fix:` commit is among them.
"""
from .selftest import Mutant as M

KDG = "osaca/semantics/kernel_dg.py"
ARCH = "osaca/semantics/arch_semantics.py"
ISA = "osaca/semantics/isa_semantics.py"
HW = "osaca/semantics/hw_model.py"
FE = "osaca/frontend.py"
CLI = "osaca/osaca.py"
PX = "osaca/parser/parser_x86att.py"
PA = "osaca/parser/parser_AArch64.py"
BP = "osaca/parser/base_parser.py"
MU = "osaca/semantics/marker_utils.py"
DBI = "osaca/db_interface.py"
IF = "osaca/parser/instruction_form.py"

MUTANTS = {}

MUTANTS["C05"] = [
    M("offset_not_strict", KDG, "max([i.line_number for i in kernel]) + 1)", "max([i.line_number for i in kernel]))", "R2",
      "revert of the fix: offset == largest line number"),
    M("offset_minus", KDG, "max([i.line_number for i in kernel]) + 1)", "max([i.line_number for i in kernel]) - 1)", "R2"),
    M("seq_target_no_offset", KDG, "                source, target = instr.line_number, instr.line_number + offset\n",
      "                source, target = instr.line_number, instr.line_number\n", "R1"),
    M("worker_target_shift", KDG, "dg, instr.line_number, instr.line_number + offset\n            )\n            tmp_list",
      "dg, instr.line_number, instr.line_number + offset + 1\n            )\n            tmp_list", "R1"),
    M("inverse_unguarded", KDG, "                if s >= offset:\n                    s -= offset", "                if s >= 0:\n                    s -= offset", "R1"),
    M("renumber_original", KDG, "temp_iform = copy.copy(orig_iform)", "temp_iform = orig_iform", "R1"),
    M("seq_roots_slice", KDG, "            for instr in kernel:\n                source, target", "            for instr in kernel[1:]:\n                source, target", "R3"),
    M("no_sort_before_key", KDG, "            lat_path.sort()\n", "            pass\n", "R4"),
    M("no_dedup_skip", KDG, "            if tuple(lat_path) in paths_set:\n                continue", "            if tuple(lat_path) in paths_set:\n                pass", "R4"),
    M("lat_sum_sub", KDG, "                lat_sum += edge_lat", "                lat_sum -= edge_lat", "R5"),
    M("lat_sum_not_reset", KDG, "        for path in all_paths:\n            lat_sum = 0.0\n", "        lat_sum = 0.0\n        for path in all_paths:\n", "R5"),
    M("member_is_target", KDG, "lat_path.append((s, edge_lat))", "lat_path.append((d, edge_lat))", "R5"),
    M("no_result_sort", KDG, "        loopcarried_deps.sort(reverse=True)\n", "", "R6"),
    M("dict_latency_wrong", KDG, '"latency": lat_sum,\n            }', '"latency": involved_lines[0][1],\n            }', "R6"),
    M("text_selects_min", FE, "            longest_lcd = max(dep_dict, key=lambda ln: dep_dict[ln][\"latency\"])\n            lcd_sum = dep_dict[longest_lcd][\"latency\"]\n            lcd_lines",
      "            longest_lcd = min(dep_dict, key=lambda ln: dep_dict[ln][\"latency\"])\n            lcd_sum = dep_dict[longest_lcd][\"latency\"]\n            lcd_lines", "R7", first=True),
    M("lcd_default_nonzero", FE, "        lcd_sum = 0.0\n        lcd_lines = {}", "        lcd_sum = 1.0\n        lcd_lines = {}", "R7", first=True),
]

MUTANTS["C06"] = [
    M("revert_parens_base", KDG, 'if (\n                    mem.base.prefix if mem.base.prefix is not None else ""\n                ) + mem.base.name != base_change["name"]:',
      'if (\n                    mem.base.prefix\n                    if mem.base.prefix is not None\n                    else "" + mem.base.name != base_change["name"]\n                ):', "R1",
      "revert of the fix"),
    M("index_cmp_name_only", KDG, 'if (\n                    mem.index.prefix if mem.index.prefix is not None else ""\n                ) + mem.index.name != index_change["name"]:',
      'if mem.index.name != index_change["name"]:', "R1"),
    M("lookup_key_no_prefix", KDG, '(src.base.prefix if src.base.prefix is not None else "") + src.base.name,\n                    {',
      'src.base.name,\n                    {', "R1"),
    M("writer_key_no_prefix", ISA, '(op.prefix if op.prefix is not None else "") + op.name\n            for op in chain(', 'op.name\n            for op in chain(', "R1"),
    M("tag_renamed", KDG, 'yield instr_form, ["storeload_dep"]', 'yield instr_form, ["store_load_dep"]', "R2"),
    M("forward_latency_wrong_tag", KDG, 'if "storeload_dep" in dep_flags and self.model is not None:', 'if "p_indexed" in dep_flags and self.model is not None:', "R2"),
    M("store_does_not_end_scan", KDG, "                    if self.is_memstore(dst, instr_form, register_changes):\n                        break",
      "                    if self.is_memstore(dst, instr_form, register_changes):\n                        pass", "R3"),
    M("store_test_first", KDG, "                    if self.is_memload(dst, instr_form, register_changes):\n                        yield instr_form, [\"storeload_dep\"]\n                    # store to same location (presumed)\n                    if self.is_memstore(dst, instr_form, register_changes):\n                        break",
      "                    if self.is_memstore(dst, instr_form, register_changes):\n                        break\n                    if self.is_memload(dst, instr_form, register_changes):\n                        yield instr_form, [\"storeload_dep\"]", "R3"),
    M("no_full_update", KDG, "                self._update_reg_changes(instr_form, register_changes)\n                # print(\"  TO\"", "                # print(\"  TO\"", "R4"),
    M("post_update_dropped", KDG, "                self._update_reg_changes(instr_form, register_changes, only_postindexed=True)\n", "                pass\n", "R4"),
    M("offset_sign", KDG, "                addr_change -= mem.offset.value", "                addr_change += mem.offset.value", "R5"),
    M("index_no_scale", KDG, 'addr_change += index_change["value"] * src.scale', 'addr_change += index_change["value"]', "R5"),
    M("true_when_nonzero", KDG, "            if addr_change == 0:\n                return True", "            if addr_change >= 0:\n                return True", "R5"),
    M("scale_mismatch_ignored", KDG, "                if mem.scale != src.scale:\n                    # scale factors do not match\n                    continue\n", "", "R5"),
    M("rename_keeps_value", KDG, '                    reg_state[reg]["value"] = src_reg_state["value"]\n', "", "R6"),
    M("unknown_forgotten", KDG, "            if change is None or reg_state.get(reg, {}) is None:", "            if change is None:", "R6"),
    M("change_subtracted", KDG, '                reg_state[reg]["value"] += change["value"]', '                reg_state[reg]["value"] -= change["value"]', "R6"),
    M("isa_op_register_addend", "osaca/data/isa/aarch64.yml",
      "        source: true\n        destination: false\n      hidden_operands:\n      - class: flag\n        name: \"N\"\n        source: false\n        destination: true\n      - class: flag\n        name: \"Z\"\n        source: false\n        destination: true\n      - class: flag\n        name: \"C\"\n        source: false\n        destination: true\n      - class: flag\n        name: \"V\"\n        source: false\n        destination: true\n    - name: adds\n      operands:\n      - class: register\n        prefix: x\n        source: false\n        destination: true\n      - class: register\n        prefix: x\n        source: true\n        destination: false\n      - class: immediate",
      "        source: true\n        destination: false\n      hidden_operands:\n      - class: flag\n        name: \"N\"\n        source: false\n        destination: true\n      - class: flag\n        name: \"Z\"\n        source: false\n        destination: true\n      - class: flag\n        name: \"C\"\n        source: false\n        destination: true\n      - class: flag\n        name: \"V\"\n        source: false\n        destination: true\n      operation: \"op1['value'] = op2['value'] + op3['value']; op1['name'] = op2['name']\"\n    - name: adds\n      operands:\n      - class: register\n        prefix: x\n        source: false\n        destination: true\n      - class: register\n        prefix: x\n        source: true\n        destination: false\n      - class: immediate",
      "D1", "revert of the data fix for adds x,x,x"),
    M("isa_op_bad_key", "osaca/data/isa/x86.yml", "operation: \"op1['value'] -= 1\"", "operation: \"op1['val'] -= 1\"", "D1"),
]

MUTANTS["C08"] = [
    M("revert_none_tp", ARCH, "throughput = max(max(data_port_pressure), reg_throughput)", "throughput = max(max(data_port_pressure), instruction_data_reg.throughput)", "R2", "revert of the fix"),
    M("revert_none_lat", ARCH, "                        latency = reg_latency\n", "                        latency = instruction_data_reg.latency\n", "R2"),
    M("tp_min", ARCH, "throughput = max(max(data_port_pressure), reg_throughput)", "throughput = min(max(data_port_pressure), reg_throughput)", "R1"),
    M("pressure_data_only", ARCH, "                        instruction_form.port_pressure = [\n                            sum(x)\n                            for x in zip(\n                                data_port_pressure,\n                                self._machine_model.average_port_pressure(\n                                    instruction_data_reg.port_pressure\n                                ),\n                            )\n                        ]",
      "                        instruction_form.port_pressure = data_port_pressure", "R1"),
    M("uops_reg_only", ARCH, "chain(reg_port_uops, data_port_uops)", "chain(reg_port_uops, [])", "R1"),
    M("wo_load_includes_load", ARCH, "                        latency_wo_load = reg_latency\n", "                        latency_wo_load = latency\n", "R1"),
    M("load_latency_always", ARCH, "                            self._machine_model.get_load_latency(reg_type)\n                            if INSTR_FLAGS.HAS_LD in instruction_form.flags\n                            else 0",
      "                            self._machine_model.get_load_latency(reg_type)\n                            if INSTR_FLAGS.HAS_ST in instruction_form.flags\n                            else 0", "R1"),
    M("revert_inplace_uops", ARCH, "data_port_uops = data_port_uops + st_data_port_uops", "data_port_uops += st_data_port_uops", "R3", "revert of the fix"),
    M("unknown_no_lt_flag", ARCH, "flags += [INSTR_FLAGS.TP_UNKWN, INSTR_FLAGS.LT_UNKWN]", "flags += [INSTR_FLAGS.TP_UNKWN]", "R4"),
    M("unknown_nonzero_latency", ARCH, "                    throughput = 0.0\n                    latency = 0.0\n                    latency_wo_load = latency\n                    instruction_form.port_pressure = [0.0 for i in range(port_number)]\n                    # instruction_formport_uops = []",
      "                    throughput = 0.0\n                    latency = 1.0\n                    latency_wo_load = latency\n                    instruction_form.port_pressure = [0.0 for i in range(port_number)]\n                    # instruction_formport_uops = []", "R4"),
    M("multiplier_row_missing", "osaca/data/zen1.yml", "load_throughput_multiplier: {gpr: 1.0, xmm: 1.0, ymm: 2.0}", "load_throughput_multiplier: {gpr: 1.0, xmm: 1.0}", "D1"),
]

MUTANTS["C12"] = [
    M("revert_bp", PX, '            "BP": ["RBP", "EBP", "BP", "BPL"],\n', "", "R1", "revert of the fix"),
    M("sil_in_sp_group", PX, '"SP": ["RSP", "ESP", "SP", "SPL"],', '"SP": ["RSP", "ESP", "SP", "SPL", "SIL"],', "R1"),
    M("di_family_incomplete", PX, '"DST": ["RDI", "EDI", "DI", "DIL"],', '"DST": ["RDI", "EDI", "DI"],', "R1"),
    M("regex_no_byte_suffix", PX, 'ma = re.match(r"R([0-9]+)[DWB]?", reg_a_name)', 'ma = re.match(r"R([0-9]+)[DW]?$", reg_a_name)', "R1"),
    M("regex_single_digit", PX, 'mb = re.match(r"R([0-9]+)[DWB]?", reg_b_name)', 'mb = re.match(r"R([0-9])[DWB]?", reg_b_name)', "R1"),
    M("vector_same_space_dropped", PX, "                if reg_a_name[1:] == reg_b_name[1:]:", "                if reg_a_name[2:] == reg_b_name[1:]:", "R1"),
    M("vector_class_missing", PX, '            "mm",\n            "xmm",\n            "ymm",\n            "zmm",\n        ]:', '            "mm",\n            "xmm",\n            "ymm",\n        ]:', "R1"),
    M("group_test_one_sided", PX, "                        if reg_b_name in dep_group:\n                            return True", "                        if reg_b_name:\n                            return True", "R4"),
    M("no_upper", PX, "        reg_b_name = reg_b.name.upper()", "        reg_b_name = reg_b.name", "R3"),
    M("revert_pred", PA, "            if reg_a.prefix.lower() in prefixes_pred and reg_b.prefix.lower() in prefixes_pred:\n                return True\n", "", "R4", "revert of the fix"),
    M("revert_case", PA, "if reg_a.name.lower() == reg_b.name.lower():", "if reg_a.name == reg_b.name:", "R3", "revert of the fix"),
    M("gpr_class_with_v", PA, 'prefixes_gpr = "wx"', 'prefixes_gpr = "wxv"', "R2"),
    M("vec_class_without_z", PA, 'prefixes_vec = "bhsdqvz"', 'prefixes_vec = "bhsdqv"', "R2"),
    M("mixed_class_test", PA, "if reg_a.prefix.lower() in prefixes_gpr and reg_b.prefix.lower() in prefixes_gpr:", "if reg_a.prefix.lower() in prefixes_gpr and reg_b.prefix.lower() in prefixes_vec:", "R4"),
    M("name_test_dropped", PA, "if reg_a.name.lower() == reg_b.name.lower():", "if reg_a.name.lower():", "R4"),
]

MUTANTS["C15"] = [
    M("revert_zen3_default", "osaca/data/zen3.yml", "store_throughput_default: [[1, ['13']]]", "store_throughput_default: [1 ,['13']]", "D1", "revert of the fix"),
    M("revert_v2_port", "osaca/data/v2.yml", "  latency: 2.0  # \t1*p67\n  port_pressure: [[1, '67']]\n- name: [bfi, bfm]", "  latency: 2.0  # \t1*p67\n  port_pressure: [[1, ['67']]]\n- name: [bfi, bfm]", "D1"),
    M("unknown_port", "osaca/data/zen1.yml", "load_throughput_default: ", "load_throughput_default: [[1, ['77']]] #", "D1"),
    M("negative_latency", "osaca/data/tx2.yml", "load_latency: {w: 4.0,", "load_latency: {w: -4.0,", "D1"),
    M("ports_not_unique", "osaca/data/n1.yml", "ports: ['0', ", "ports: ['0', '0', ", "D1"),
    M("dbcheck_wrong_field", DBI, '        if instr_form["latency"] is None:\n            missing_latency.append(instr_form)', '        if instr_form["throughput"] is None:\n            missing_latency.append(instr_form)', "D2"),
    M("dbcheck_swapped_unpack", DBI, "        missing_throughput,\n        missing_latency,\n        missing_port_pressure,\n        suspicious_instructions,\n        duplicate_instr_arch,\n        bad_operand,\n    ) = _check_sanity_arch_db",
      "        missing_latency,\n        missing_throughput,\n        missing_port_pressure,\n        suspicious_instructions,\n        duplicate_instr_arch,\n        bad_operand,\n    ) = _check_sanity_arch_db", "D2"),
    M("dbcheck_prints_other_list", DBI, "round(100 * len(m_l) / total), len(m_l), total", "round(100 * len(m_l) / total), len(m_tp), total", "D2"),
    M("dbcheck_not_none", DBI, '        if instr_form["port_pressure"] is None:', '        if not instr_form["port_pressure"]:', "D2"),
    M("revert_fixed_uops_text", FE, "used_ports = [list(uops[1]) for uops in self._get_port_uops(instruction_form)]", "used_ports = [list(uops[1]) for uops in instruction_form.port_uops]", "R3", "revert of the fix"),
    M("revert_fixed_uops_dict", FE, "                        for y in self._get_port_uops(x)\n", "                        for y in x.port_uops\n", "R3"),
    M("balancer_no_resolution", ARCH, "                kernel[idx].port_uops = list(instruction_form.port_uops.values())[0]\n", "", "R3"),
]

MUTANTS["C18"] = [
    M("revert_inplace_uops", ARCH, "data_port_uops = data_port_uops + st_data_port_uops", "data_port_uops += st_data_port_uops", "R2", "revert of the fix"),
    M("hidden_operand_flagged", ISA, "                op_dict[dict_key].append(op)\n", "                op.source = True\n                op_dict[dict_key].append(op)\n", "R2"),
    M("model_uops_extended", ARCH, "        instruction_form.port_uops = instruction_data.port_pressure\n", "        instruction_form.port_uops = instruction_data.port_pressure\n        instruction_form.port_uops.append([0, []])\n", "R2"),
    M("default_operands_mutated", PX, "        instruction_form = InstructionForm(line=line, line_number=line_number)\n", "        instruction_form = InstructionForm(line=line, line_number=line_number)\n        instruction_form.operands.append(None)\n", "R2"),
    M("ports_list_sorted_in_place", FE, "        port_len = [4 for x in self._machine_model.get_ports()]", "        self._machine_model.get_ports().sort()\n        port_len = [4 for x in self._machine_model.get_ports()]", "R2"),
    M("runtime_cache_entry_mutated", HW, "    def get_load_latency(self, reg_type):\n        \"\"\"Return load latency for given register type.\"\"\"\n", "    def get_load_latency(self, reg_type):\n        \"\"\"Return load latency for given register type.\"\"\"\n        self._data[\"load_latency\"].setdefault(reg_type, 0)\n", "R2"),
    M("parser_remembers_line", PX, "        instruction_form = InstructionForm(line=line, line_number=line_number)\n        result = None\n", "        instruction_form = InstructionForm(line=line, line_number=line_number)\n        self.last_line = line\n        result = None\n", "R3"),
    M("a64_parser_sets_pyparsing_whitespace", PA, '        """Create parser for ARM AArch64 ISA."""\n', '        """Create parser for ARM AArch64 ISA."""\n        pp.ParserElement.setDefaultWhitespaceChars(" \\t")\n', "R4", "round 4: library-global default, applies to grammars built afterwards"),
    M("x86_parser_inline_literals", PX, '        """Create parser for x86 AT&T ISA."""\n', '        """Create parser for x86 AT&T ISA."""\n        pp.ParserElement.inlineLiteralsUsing(pp.Suppress)\n', "R4"),
    M("kernel_dg_chdir", KDG, "import time\n", "import time\n\nos.chdir(os.path.dirname(os.path.abspath(__file__)))\n", "R4", "module-level interpreter state"),
    M("pyparsing_class_attribute_store", PX, '        """Create parser for x86 AT&T ISA."""\n', '        """Create parser for x86 AT&T ISA."""\n        pp.ParserElement.DEFAULT_WHITE_CHARS = " \\t"\n', "R4"),
    M("packrat_is_fine", PX, '        """Create parser for x86 AT&T ISA."""\n', '        """Create parser for x86 AT&T ISA."""\n        pp.ParserElement.enablePackrat()\n', "SILENT", "memoisation only"),
    M("global_memo", CLI, "    isa = MachineModel.get_isa_for_arch(arch)\n    if isa == \"x86\":\n        return ParserX86ATT()", "    SUPPORTED_ARCHS.append(arch)\n    isa = MachineModel.get_isa_for_arch(arch)\n    if isa == \"x86\":\n        return ParserX86ATT()", "R2"),
]

MUTANTS["C13"] = [
    M("revert_latency_lcd", FE, '"LatencyLCD": float(lcd_lines.get(x.line_number, 0.0)),', '"LatencyLCD": float(x.latency_lcd),', "R1", "revert of the fix"),
    M("dict_cp_from_latency", FE, '"LatencyCP": float(x.latency_cp),', '"LatencyCP": float(x.latency),', "R1"),
    M("dict_summary_cp_other", FE, '"CriticalPath": sum([x.latency_cp for x in cp_kernel]),', '"CriticalPath": sum([x.latency for x in cp_kernel]),', "R1"),
    M("text_cp_cell_all_lines", FE, "cp_kernel if line_number in cp_lines else None,", "cp_kernel,", "R1"),
    M("dict_summary_lcd_const", FE, '"LCD": lcd_sum,\n', '"LCD": 0.0,\n', "R1"),
    M("text_summary_skips_unknown_lines", FE, "            tp_sum = ArchSemantics.get_throughput_sum(kernel)\n            # if ALL instructions are unknown", "            tp_sum = ArchSemantics.get_throughput_sum([i for i in kernel if INSTR_FLAGS.TP_UNKWN not in i.flags])\n            # if ALL instructions are unknown", "R1", "round 4: X-flagged memory forms keep their load pressure"),
    M("dict_summary_first_lines_only", FE, "        tp_sum = ArchSemantics.get_throughput_sum(kernel) or kernel[0].port_pressure", "        tp_sum = ArchSemantics.get_throughput_sum(kernel[:-1]) or kernel[0].port_pressure", "R1"),
    M("text_summary_kernel_copy", FE, "            tp_sum = ArchSemantics.get_throughput_sum(kernel)\n            # if ALL instructions are unknown", "            all_lines = list(kernel)\n            tp_sum = ArchSemantics.get_throughput_sum(all_lines)\n            # if ALL instructions are unknown", "SILENT", "a copy of the whole kernel is summed"),
    M("lcd_list_truncated", FE, "        for dep in sorted(dep_dict.keys()):", "        for dep in sorted(dep_dict.keys())[:1]:", "R1"),
    M("dict_other_graph", CLI, "            frontend.full_analysis_dict(\n                kernel,\n                kernel_graph,", "            frontend.full_analysis_dict(\n                parsed_code,\n                kernel_graph,", "R2"),
    M("dict_no_lcd_warning", CLI, "                lcd_warning=kernel_graph.timed_out,\n            ),\n            args.yaml_out,", "                lcd_warning=False,\n            ),\n            args.yaml_out,", "R2"),
    M("unknown_branch_lt_flag", FE, "        if not ignore_unknown and INSTR_FLAGS.TP_UNKWN in [", "        if not ignore_unknown and INSTR_FLAGS.LT_UNKWN in [", "R3"),
    M("unknown_count_all_lines", FE, "[instr.flags for instr in kernel if INSTR_FLAGS.TP_UNKWN in instr.flags]", "[instr.flags for instr in kernel if instr.flags]", "R3"),
    M("x_mark_other_flag", FE, 'string_result += "X" if INSTR_FLAGS.TP_UNKWN in flag_obj else ""', 'string_result += "X" if INSTR_FLAGS.LT_UNKWN in flag_obj else ""', "R3"),
    M("ignore_unknown_not_threaded", CLI, "            ignore_unknown=ignore_unknown,\n", "            ignore_unknown=False,\n", "R3"),
    M("arch_warning_inverted", CLI, "    print_arch_warning = False if args.arch else True", "    print_arch_warning = True if args.arch else False", "R4"),
    M("length_threshold", CLI, "len(kernel) == len(parsed_code) and len(kernel) > 100", "len(kernel) == len(parsed_code) and len(kernel) > 1000", "R4"),
    M("length_with_lines", CLI, "        print_length_warning = False\n", "        print_length_warning = len(kernel) > 100\n", "R4"),
    M("header_swapped", FE, '        warnings += arch_text if arch_warning else ""', '        warnings += arch_text if length_warning else ""', "R4"),
    M("default_arch_wrong_isa", CLI, '    "aarch64": "V2",', '    "aarch64": "ZEN4",', "R5"),
    M("isa_table_row_missing", HW, '            "tsv110": "aarch64",\n', "", "R5"),
    M("supported_without_file", CLI, '    "V2",\n]', '    "V2",\n    "V3",\n]', "R5"),
]

_TOLERANT = ('        try:\n            with cachefile.open("rb") as f:\n                data = pickle.load(f)\n        except Exception:\n            # an interrupted or concurrent write may leave an incomplete file: rebuild instead\n            return None\n',
             '        with cachefile.open("rb") as f:\n            data = pickle.load(f)\n')
_ATOMIC = ('        tmpfile = cachefile.with_name("{}.{}.tmp.pickle".format(cachefile.stem, os.getpid()))\n        try:\n            with tmpfile.open("wb") as f:\n                pickle.dump(self._data, f)\n            os.replace(str(tmpfile), str(cachefile))\n        finally:\n            if tmpfile.exists():\n                tmpfile.unlink()\n',
           '        with cachefile.open("wb") as f:\n            pickle.dump(self._data, f)\n')

MUTANTS["C17"] = [
    M("revert_fix_in_place_and_unguarded", HW, [_TOLERANT[0], _ATOMIC[0]], [_TOLERANT[1], _ATOMIC[1]], "R6", "revert of the fix"),
    M("revert_cache_name_with_suffix", HW, 'companion_cachefile = p.with_name("." + p.stem + "_" + hexhash + ".pickle")\n        if companion_cachefile.exists():', 'companion_cachefile = p.with_name("." + p.stem + "_" + hexhash).with_suffix(".pickle")\n        if companion_cachefile.exists():', "R1", "revert of fix cbee139 (reader side)"),
    M("home_cache_name_with_suffix_both", HW, 'Path(utils.CACHE_DIR) / (p.stem + "_" + hexhash + ".pickle")', '(Path(utils.CACHE_DIR) / (p.stem + "_" + hexhash)).with_suffix(".pickle")', "R1", "revert of fix cbee139 (home, reader)"),
    M("cache_name_digest_first", HW, 'companion_cachefile = p.with_name("." + p.stem + "_" + hexhash + ".pickle")\n        if companion_cachefile.exists():', 'companion_cachefile = p.with_name("." + hexhash + "_" + p.stem + ".pickle")\n        if companion_cachefile.exists():', "R1", "reader/writer disagree"),
    M("mkdir_check_then_create", HW, "        try:\n            os.makedirs(cache_dir, exist_ok=True)\n        except OSError:\n            return\n", "        if not cache_dir.is_dir():\n            try:\n                cache_dir.mkdir(parents=True)\n            except PermissionError:\n                return\n", "R7", "round 4: check-then-create race"),
    M("makedirs_plain", HW, "        try:\n            os.makedirs(cache_dir, exist_ok=True)\n        except OSError:\n            return\n", "        if not os.path.exists(cache_dir):\n            os.makedirs(cache_dir)\n", "R7"),
    M("mkdir_exist_ok_path_api", HW, "        try:\n            os.makedirs(cache_dir, exist_ok=True)\n        except OSError:\n            return\n", "        try:\n            cache_dir.mkdir(parents=True, exist_ok=True)\n        except PermissionError:\n            return\n", "SILENT", "exist_ok=True tolerates the racing creator"),
    M("mkdir_fileexists_handler", HW, "        try:\n            os.makedirs(cache_dir, exist_ok=True)\n        except OSError:\n            return\n", "        try:\n            os.makedirs(cache_dir)\n        except FileExistsError:\n            pass\n        except OSError:\n            return\n", "SILENT", "FileExistsError handled"),
    M("tolerant_read_only", HW, _ATOMIC[0], _ATOMIC[1], "SILENT", "tolerant read alone satisfies the rule"),
    M("atomic_publish_only", HW, _TOLERANT[0], _TOLERANT[1], "R6", "atomic publish without fsync does not survive a machine crash (0-byte file)"),
    M("handler_narrowed_without_eoferror", HW, "        except Exception:\n            # an interrupted or concurrent write", "        except (OSError, pickle.PickleError, AttributeError, ImportError, IndexError):\n            # an interrupted or concurrent write", "R6", "round 5: EOFError (0 bytes, header only, frame boundary) escapes"),
    M("handler_explicit_with_eoferror_is_fine", HW, "        except Exception:\n            # an interrupted or concurrent write", "        except (OSError, pickle.UnpicklingError, EOFError, AttributeError, ImportError, IndexError, ValueError):\n            # an interrupted or concurrent write", "SILENT", "covers what an incomplete pickle raises"),
    M("tmp_name_not_unique", HW, [_TOLERANT[0], 'cachefile.with_name("{}.{}.tmp.pickle".format(cachefile.stem, os.getpid()))'],
      [_TOLERANT[1], 'cachefile.with_name("{}.tmp.pickle".format(cachefile.stem))'], "R6"),
    M("handler_reraises", HW, [_ATOMIC[0], "            # an interrupted or concurrent write may leave an incomplete file: rebuild instead\n            return None\n"],
      [_ATOMIC[1], "            raise\n"], "R6"),
    M("reader_key_by_name", HW, '        p = Path(filepath)\n        hexhash = hashlib.sha256(p.read_bytes()).hexdigest()\n\n        # 1. companion',
      '        p = Path(filepath)\n        hexhash = hashlib.sha256(p.name.encode()).hexdigest()\n\n        # 1. companion', "R1"),
    M("writer_other_home_name", HW, 'home_cachefile = cache_dir / (p.stem + "_" + hexhash + ".pickle")', 'home_cachefile = cache_dir / (p.stem + "-" + hexhash + ".pickle")', "R1"),
    M("version_test_dropped", HW, '            data = self._load_cachefile(home_cachefile)\n            if data is not None and data.get("internal_version") == self.INTERNAL_VERSION:', '            data = self._load_cachefile(home_cachefile)\n            if data is not None:', "R2"),
    M("stamp_after_write", HW, ['                self._data["internal_version"] = self.INTERNAL_VERSION\n', "                    self._write_in_cache(self._path)\n"],
      ["", '                    self._write_in_cache(self._path)\n                self._data["internal_version"] = self.INTERNAL_VERSION\n'], "R2"),
    M("store_after_publish", HW, "                    self._write_in_cache(self._path)\n", '                    self._write_in_cache(self._path)\n                self._data["loaded_from"] = self._path\n', "R3"),
    M("lazy_reads_cache", HW, "cached = self._get_cached(self._path) if not lazy else False", "cached = self._get_cached(self._path)", "R4"),
    M("lazy_fills_runtime_cache", HW, "            # Store in runtime cache\n            if not lazy:\n                MachineModel._runtime_cache[self._path] = self._data", "            # Store in runtime cache\n            MachineModel._runtime_cache[self._path] = self._data", "R4"),
    M("runtime_cache_served", HW, "                self._data = MachineModel._runtime_cache[self._path]\n", "                self._data = MachineModel._runtime_cache[self._path]\n                return\n", "R5"),
]

_ALIAS_NEW = '''                separated_forms = []
                for entry in self._data["instruction_forms"]:
                    if not isinstance(entry["name"], list):
                        separated_forms.append(entry)
                        continue
                    for name in entry["name"]:
                        new_entry = {"name": name}
                        for k in [x for x in entry.keys() if x != "name"]:
                            new_entry[k] = entry[k]
                        separated_forms.append(new_entry)
                self._data["instruction_forms"] = separated_forms
'''
_ALIAS_OLD = '''                for entry in [
                    x for x in self._data["instruction_forms"] if isinstance(x["name"], list)
                ]:
                    for name in entry["name"]:
                        new_entry = {"name": name}
                        for k in [x for x in entry.keys() if x != "name"]:
                            new_entry[k] = entry[k]
                        self._data["instruction_forms"].append(new_entry)
                    # remove old entry
                    self._data["instruction_forms"].remove(entry)
'''

MUTANTS["C07"] = [
    M("revert_alias_order", HW, _ALIAS_NEW, _ALIAS_OLD, "R2", "revert of the fix"),
    M("no_arity_guard", HW, "        if len(operands) != len(i_operands):\n            return False\n", "", "R1"),
    M("any_position", HW, "operands_ok = operands_ok and self._check_operands(i_operand, operand)", "operands_ok = operands_ok or self._check_operands(i_operand, operand)", "R1"),
    M("wrong_position", HW, "            i_operand = i_operands[idx]\n", "            i_operand = i_operands[0]\n", "R1"),
    M("last_match", HW, "            return next(\n                instruction_form\n                for instruction_form in name_matched_iforms\n", "            return next(\n                instruction_form\n                for instruction_form in reversed(name_matched_iforms)\n", "R2"),
    M("lookup_lower", HW, 'name_matched_iforms = self._data["instruction_forms_dict"].get(name.upper(), [])', 'name_matched_iforms = self._data["instruction_forms_dict"].get(name.lower(), [])', "R3"),
    M("index_front_insert", HW, 'self._data["instruction_forms_dict"][iform["name"]].append(new_iform)', 'self._data["instruction_forms_dict"][iform["name"]].insert(0, new_iform)', "R2"),
    M("gas_fallback_dropped_in_isa", ISA, '        if (\n            isa_data is None\n            and self._isa == "x86"\n            and instruction_form.mnemonic[-1] in self.GAS_SUFFIXES\n        ):\n            # Check for instruction without GAS suffix\n            isa_data = self._isa_model.get_instruction(\n                instruction_form.mnemonic[:-1], instruction_form.operands\n            )\n        if isa_data is None and self._isa == "aarch64" and "." in instruction_form.mnemonic:\n            # Check for instruction without shape/cc suffix\n            suffix_start = instruction_form.mnemonic.index(".")\n            isa_data = self._isa_model.get_instruction(\n                instruction_form.mnemonic[:suffix_start], instruction_form.operands\n            )\n        operands = instruction_form.operands',
      '        if isa_data is None and self._isa == "aarch64" and "." in instruction_form.mnemonic:\n            # Check for instruction without shape/cc suffix\n            suffix_start = instruction_form.mnemonic.index(".")\n            isa_data = self._isa_model.get_instruction(\n                instruction_form.mnemonic[:suffix_start], instruction_form.operands\n            )\n        operands = instruction_form.operands', "R4"),
    M("suffix_slice_two", ARCH, "                        instruction_data_reg = self._machine_model.get_instruction(\n                            instruction_form.mnemonic[:-1], operands\n                        )", "                        instruction_data_reg = self._machine_model.get_instruction(\n                            instruction_form.mnemonic[:-2], operands\n                        )", "R4"),
    M("dot_suffix_wrong_isa", ARCH, '                instruction_data is None\n                and self._isa == "aarch64"\n                and "." in instruction_form.mnemonic', '                instruction_data is None\n                and self._isa == "x86"\n                and "." in instruction_form.mnemonic', "R4"),
    M("gas_suffixes_shorter", ARCH, '    GAS_SUFFIXES = "bswlqt"', '    GAS_SUFFIXES = "bswlq"', "R4"),
    M("x86_imm_any_type", HW, '            return isinstance(i_operand, ImmediateOperand) and i_operand.imd_type == "int"', "            return isinstance(i_operand, ImmediateOperand)", "R6"),
    M("x86_mem_matches_reg", HW, "        if isinstance(operand, MemoryOperand):\n            if not isinstance(i_operand, MemoryOperand):\n                return False\n            return self._is_x86_mem_type(i_operand, operand)", "        if isinstance(operand, MemoryOperand):\n            return self._is_x86_mem_type(i_operand, operand)", "R6"),
    M("a64_prefix_mismatch_ok", HW, "        if reg.prefix != i_reg.prefix:\n            return False\n", "", "R6"),
    M("a64_shape_wildcard_dropped", HW, "        # check for prefix and shape\n        if reg.prefix != i_reg.prefix:\n            return False\n        if reg.shape is not None:\n            if i_reg.shape is not None and (\n                reg.shape == i_reg.shape or self.WILDCARD in (reg.shape + i_reg.shape)\n            ):",
      "        # check for prefix and shape\n        if reg.prefix != i_reg.prefix:\n            return False\n        if reg.shape is not None:\n            if i_reg.shape is not None and (\n                reg.shape == i_reg.shape\n            ):", "R6"),
    M("x86_gpr_pattern_matches_vector", HW, "        else:\n            if reg.name.rstrip(string.digits).lower() == i_reg_name:\n                return True\n            if i_reg_name == \"gpr\":\n                return True\n        return False", "        if reg.name.rstrip(string.digits).lower() == i_reg_name:\n            return True\n        if i_reg_name == \"gpr\":\n            return True\n        return False", "R6"),
    M("a64_mem_scale_or", HW, "                or (mem.scale != 1 and i_mem.scale != 1)\n            )\n            # check pre-indexing", "                or (mem.scale != 1 or i_mem.scale != 1)\n            )\n            # check pre-indexing", "R6"),
    M("a64_mem_post_index_ignored", HW, "            # check post-indexing\n            and (\n                i_mem.post_indexed == self.WILDCARD\n                or mem.post_indexed == i_mem.post_indexed\n                or (isinstance(mem.post_indexed, dict) and i_mem.post_indexed)\n            )\n", "", "R6"),
    M("x86_mem_index_wildcard_dropped", HW, "                mem.index == i_mem.index\n                or i_mem.index == self.WILDCARD\n                or (\n                    mem.index is not None\n                    # and mem.index.name != None", "                mem.index == i_mem.index\n                or (\n                    mem.index is not None\n                    # and mem.index.name != None", "R6"),
    M("wildcard_matches_anything", HW, "            if isinstance(i_operand, RegisterOperand):\n                return True\n            else:\n                return False", "            return True", "R6"),
    M("cond_wildcard_dropped", HW, "return (i_operand.ccode == self.WILDCARD) or (i_operand.ccode == operand.ccode)", "return i_operand.ccode == operand.ccode", "R6"),
    M("refactor_demorgan", HW, "        if reg is None:\n            if i_reg is None:\n                return True\n            return False", "        if reg is None:\n            return i_reg is None", "SILENT", "behaviour-preserving rewrite"),
    M("refactor_reorder_disjuncts", HW, "                mem.scale == i_mem.scale\n                or i_mem.scale == self.WILDCARD\n                or (mem.scale != 1 and i_mem.scale != 1)\n            )\n            # check pre-indexing", "                i_mem.scale == self.WILDCARD\n                or (i_mem.scale != 1 and mem.scale != 1)\n                or i_mem.scale == mem.scale\n            )\n            # check pre-indexing", "SILENT", "behaviour-preserving rewrite"),
    M("data_pattern_digit", "osaca/data/zen1.yml", "  - class: register\n    name: xmm\n", "  - class: register\n    name: xmm0\n", "D1", first=True),
    M("data_prefix_unknown", "osaca/data/n1.yml", "    prefix: x\n", "    prefix: xx\n", "D1", first=True),
    M("data_scale_none", "osaca/data/tx2.yml", "    scale: 1\n", "    scale: ~\n", "D1", first=True),
]

MUTANTS["C03"] = [
    M("scan_from_self", KDG, "instruction_form, kernel[i + 1 :], flag_dependencies", "instruction_form, kernel[i:], flag_dependencies", "R1"),
    M("scan_skips_next", KDG, "instruction_form, kernel[i + 1 :], flag_dependencies", "instruction_form, kernel[i + 2 :], flag_dependencies", "R1"),
    M("kill_before_use", KDG, "                    if self.is_read(dst, instr_form):\n                        if (\n                            dst.pre_indexed\n                            or dst.post_indexed\n                            or (isinstance(dst.post_indexed, dict))\n                        ):\n                            yield instr_form, [\"p_indexed\"]\n                        else:\n                            yield instr_form, []\n                    # write to register -> abort\n                    if self.is_written(dst, instr_form):\n                        break",
      "                    if self.is_written(dst, instr_form):\n                        break\n                    if self.is_read(dst, instr_form):\n                        if (\n                            dst.pre_indexed\n                            or dst.post_indexed\n                            or (isinstance(dst.post_indexed, dict))\n                        ):\n                            yield instr_form, [\"p_indexed\"]\n                        else:\n                            yield instr_form, []", "R2"),
    M("no_kill", KDG, "                    # write to register -> abort\n                    if self.is_written(dst, instr_form):\n                        break", "                    # write to register -> abort\n                    if self.is_written(dst, instr_form):\n                        pass", "R2"),
    M("flags_always", KDG, "                if isinstance(dst, FlagOperand) and flag_dependencies:", "                if isinstance(dst, FlagOperand):", "R3"),
    M("flag_request_dropped_in_lcd", KDG, "        dg = self.create_DG(tmp_kernel, flag_dependencies)", "        dg = self.create_DG(tmp_kernel)", "R3"),
    M("flag_request_not_from_cli", CLI, "kernel, parser, machine_model, semantics, args.lcd_timeout, args.consider_flag_deps", "kernel, parser, machine_model, semantics, args.lcd_timeout, False", "R3"),
    M("read_ignores_index", KDG, "                if src.index is not None and isinstance(src.index, RegisterOperand):\n                    is_read = self.parser.is_reg_dependend_of(register, src.index) or is_read\n", "", "R4"),
    M("read_ignores_store_address", KDG, "                if dst.base is not None:\n                    is_read = self.parser.is_reg_dependend_of(register, dst.base) or is_read\n", "", "R4"),
    M("read_scans_destinations", KDG, "        is_read = False\n        if instruction_form.semantic_operands is None:\n            return is_read\n        for src in chain(\n            instruction_form.semantic_operands[\"source\"],",
      "        is_read = False\n        if instruction_form.semantic_operands is None:\n            return is_read\n        for src in chain(\n            instruction_form.semantic_operands[\"destination\"],", "R4"),
    M("written_ignores_writeback", KDG, "            if isinstance(dst, MemoryOperand):\n                if dst.pre_indexed or dst.post_indexed:\n                    is_written = self.parser.is_reg_dependend_of(register, dst.base) or is_written\n        # Check also", "        # Check also", "R4"),
    M("written_base_always", KDG, "            if isinstance(src, MemoryOperand):\n                if src.pre_indexed or src.post_indexed:\n                    is_written = self.parser.is_reg_dependend_of(register, src.base) or is_written", "            if isinstance(src, MemoryOperand):\n                if True:\n                    is_written = self.parser.is_reg_dependend_of(register, src.base) or is_written", "R4"),
    M("written_hit_overwritten", KDG, "                is_written = self.parser.is_flag_dependend_of(register, dst) or is_written", "                is_written = self.parser.is_flag_dependend_of(register, dst)", "R4"),
    M("rmw_as_source", ISA, "            if op.source and op.destination:\n                op_dict[\"src_dst\"].append(operands[i])\n                continue\n", "", "R5"),
    M("hidden_roles_swapped", ISA, '                        else "source" if op.source else "destination"\n                    )\n                else:', '                        else "destination" if op.source else "source"\n                    )\n                else:', "R5"),
    M("explicit_wrong_operand", ISA, '                op_dict["destination"].append(operands[i])\n                continue', '                op_dict["destination"].append(operands[-1])\n                continue', "R5"),
    M("x86_default_dest_first", ISA, "            # return last operand\n            return instruction_form.operands[-1:]", "            # return last operand\n            return instruction_form.operands[:1]", "R6"),
    M("a64_sources_all", ISA, "            return [op for op in instruction_form.operands[1:]]", "            return [op for op in instruction_form.operands[0:]]", "R6"),
    M("edge_attr_renamed", KDG, "                dg.add_edge(\n                    instruction_form.line_number,\n                    dep.line_number,\n                    latency=edge_weight,\n                )", "                dg.add_edge(\n                    instruction_form.line_number,\n                    dep.line_number,\n                    weight=edge_weight,\n                )", "R7"),
    M("longest_path_other_key", KDG, 'dag_longest_path(dg, weight="latency")', 'dag_longest_path(dg, weight="lat")', "R7"),
    M("edge_reversed", KDG, "                dg.add_edge(\n                    instruction_form.line_number,\n                    dep.line_number,", "                dg.add_edge(\n                    dep.line_number,\n                    instruction_form.line_number,", "R7"),
    M("weight_with_load", KDG, "                    else instruction_form.latency_wo_load\n                )", "                    else instruction_form.latency\n                )", "R7"),
    M("writeback_weight_const", KDG, 'edge_weight = self.model.get("p_index_latency", 1)', "edge_weight = 1", "R7"),
    M("zero_idiom_any_operands", ISA, "if isa_data.breaks_dependency_on_equal_operands and operands[1:] == operands[:-1]:", "if isa_data.breaks_dependency_on_equal_operands:", "R8"),
    M("zero_idiom_reads", ISA, '            op_dict["destination"] += operands\n            if isa_data.hidden_operands != []:', '            op_dict["src_dst"] += operands\n            if isa_data.hidden_operands != []:', "R8"),
    M("isa_imm_destination", "osaca/data/isa/x86.yml", "        - class: \"immediate\"\n          imd: \"int\"\n          source: true\n          destination: false", "        - class: \"immediate\"\n          imd: \"int\"\n          source: true\n          destination: true", "D1", first=True),
    M("isa_role_not_bool", "osaca/data/isa/aarch64.yml", "        source: false\n        destination: true\n", "        source: false\n        destination: yes please\n", "D1", first=True),
]

MUTANTS["C11"] = [
    M("comment_start_on_marker", MU, "                if comments[\"start\"] == line.comment:\n                    index_start = i + 1", "                if comments[\"start\"] == line.comment:\n                    index_start = i", "R1"),
    M("comment_end_inclusive", MU, "                elif comments[\"end\"] == line.comment:\n                    index_end = i", "                elif comments[\"end\"] == line.comment:\n                    index_end = i + 1", "R1"),
    M("byte_start_ignores_count", MU, "                        index_start = i + 1 + line_count", "                        index_start = i + 2", "R1"),
    M("slice_inclusive", MU, "    return kernel[start:end]", "    return kernel[start : end + 1]", "R1"),
    M("no_end_default", MU, "    if end == -1:\n        end = len(kernel)\n", "", "R1"),
    M("count_not_advanced", MU, "        line_count += 1\n        extracted_bytes", "        extracted_bytes", "R1"),
    M("byte_prefix_not_compared", MU, "    if extracted_bytes[0 : len(byte_list)] == byte_list:", "    if extracted_bytes:", "R1"),
    M("start_ignores_register", MU, "                    isinstance(source, ImmediateOperand)\n                    and parser.normalize_imd(source) == mov_vals[0]\n                    and isinstance(destination, RegisterOperand)\n                    and parser.get_full_reg_name(destination) == mov_reg\n                ):",
      "                    isinstance(source, ImmediateOperand)\n                    and parser.normalize_imd(source) == mov_vals[0]\n                    and isinstance(destination, RegisterOperand)\n                ):", "R2"),
    M("end_uses_start_value", MU, "and parser.normalize_imd(source) == mov_vals[1]", "and parser.normalize_imd(source) == mov_vals[0]", "R2"),
    M("end_without_bytes", MU, "                    # operand of first instruction match end, check for second one\n                    match, line_count = match_bytes(lines, i + 1, nop_bytes)\n                    if match:\n                        # return line of the marker\n                        index_end = i",
      "                    # return line of the marker\n                    index_end = i", "R2"),
    M("operands_not_reversed", MU, "source = line.operands[0 if not reverse else 1]", "source = line.operands[0]", "R2"),
    M("x86_wrong_register", MU, '        ["mov", "movl"],\n        "ebx",', '        ["mov", "movl"],\n        "eax",', "R3"),
    M("a64_wrong_bytes", MU, "    nop_bytes = [213, 3, 32, 31]", "    nop_bytes = [213, 3, 32]", "R3"),
    M("end_value_changed", MU, '        "x1",\n        [111, 222],', '        "x1",\n        [111, 223],', "R3"),
    M("comment_keyword_changed", MU, '"end": "OSACA-END"', '"end": "OSACA-STOP"', "R3"),
    M("range_exclusive", CLI, "            rnge = list(range(start, end + 1))", "            rnge = list(range(start, end))", "R4"),
    M("colon_not_accepted", CLI, '    line_str = line_str.replace(":", "-")\n', "", "R4"),
    M("lines_by_index", CLI, "kernel = [line for line in parsed_code if line.line_number in line_range]", "kernel = [line for i, line in enumerate(parsed_code) if i in line_range]", "R4"),
    M("label_gets_pressure", ARCH, "            instruction_form.port_pressure = [0.0 for i in range(port_number)]\n            instruction_form.port_uops = []\n        else:", "            instruction_form.port_pressure = [1.0 for i in range(port_number)]\n            instruction_form.port_uops = []\n        else:", "R5"),
    M("summary_counts_all_lines", ARCH, "port_pressures = [instr.port_pressure for instr in kernel if instr.throughput != 0.0]", "port_pressures = [instr.port_pressure for instr in kernel]", "R5"),
    M("src_dst_guard_dropped", ISA, "        if instruction_form.operands is None or instruction_form.mnemonic is None:", "        if instruction_form.operands is None:", "R5"),
]

_SEQ_DEADLINE = ('''            start_time = time.time()
            for instr in kernel:
                source, target = instr.line_number, instr.line_number + offset
                # restrict the search to the nodes lying on a path source -> target: dg is acyclic, so
                # every branch of the enumeration then ends in a path and the timeout below is checked
                # regularly (otherwise the generator can run for a very long time without yielding)
                on_path = (nx.descendants(dg, source) | {source}) & (nx.ancestors(dg, target) | {target})
                if target not in on_path or source not in on_path:
                    continue
                for path in nx.algorithms.simple_paths.all_simple_paths(
                    dg.subgraph(on_path), source, target
                ):
                    all_paths.append(path)
                    if timeout != -1 and time.time() - start_time > timeout:
                        self.timed_out = True
                        break
                if self.timed_out:
                    break
''', '''            for instr in kernel:
                all_paths.extend(
                    nx.algorithms.simple_paths.all_simple_paths(
                        dg, instr.line_number, instr.line_number + offset
                    )
                )
''')

MUTANTS["C16"] = [
    M("floor_chunks", KDG, "workload = int((klen - 1) / num_cores) + 1", "workload = int(klen / num_cores)", "R1"),
    M("floor_div_chunks", KDG, "workload = int((klen - 1) / num_cores) + 1", "workload = klen // num_cores", "R1"),
    M("ceil_other_form", KDG, "workload = int((klen - 1) / num_cores) + 1", "workload = (klen + num_cores - 1) // num_cores", "SILENT", "another ceiling form"),
    M("starts_shifted", KDG, "starts = [tid * workload for tid in range(num_cores)]", "starts = [tid * workload + 1 for tid in range(num_cores)]", "R1"),
    M("ends_not_clamped_to_n", KDG, "ends = [min((tid + 1) * workload, klen) for tid in range(num_cores)]", "ends = [min((tid + 1) * workload, klen - 1) for tid in range(num_cores)]", "R1"),
    M("ends_overlap", KDG, "ends = [min((tid + 1) * workload, klen) for tid in range(num_cores)]", "ends = [min((tid + 2) * workload, klen) for tid in range(num_cores)]", "R1"),
    M("fewer_workers_than_slices", KDG, "starts = [tid * workload for tid in range(num_cores)]", "starts = [tid * workload for tid in range(num_cores - 1)]", "R1"),
    M("slices_of_other_list", KDG, "instrs = [kernel[s:e] for s, e in zip(starts, ends)]", "instrs = [tmp_kernel[s:e] for s, e in zip(starts, ends)]", "R1"),
    M("worker_other_target", KDG, "                dg, instr.line_number, instr.line_number + offset\n            )\n            tmp_list", "                dg, instr.line_number + offset, instr.line_number\n            )\n            tmp_list", "R2"),
    M("worker_keeps_first_path", KDG, "            tmp_list = list(generator_path)\n            dst_list.extend(tmp_list)", "            tmp_list = list(generator_path)\n            dst_list.extend(tmp_list[:1])", "R2"),
    M("no_result_sort", KDG, "        loopcarried_deps.sort(reverse=True)\n", "", "R3"),
    M("copy_after_teardown", KDG, "                            p.join()\n                all_paths = list(all_paths)\n        else:", "                            p.join()\n            all_paths = list(all_paths)\n        else:", "R3"),
    M("report_iterates_set", FE, "            used_ports = list(set([p for uops_ports in used_ports for p in uops_ports]))\n", "            used_ports = list(set([p for uops_ports in used_ports for p in uops_ports]))\n            s += \" \".join(used_ports)\n", "R4"),
]

MUTANTS["C19"] = [
    M("revert_seq_deadline", KDG, _SEQ_DEADLINE[0], _SEQ_DEADLINE[1], "R6", "revert of the fix"),
    M("deadline_every_root_only", KDG, "                    all_paths.append(path)\n                    if timeout != -1 and time.time() - start_time > timeout:\n                        self.timed_out = True\n                        break\n                if self.timed_out:\n                    break",
      "                    all_paths.append(path)\n                if timeout != -1 and time.time() - start_time > timeout:\n                    self.timed_out = True\n                if self.timed_out:\n                    break", "R6"),
    M("flag_on_normal_exit", KDG, "                            # all procs done\n                            for p in processes:\n                                p.join()\n                            break", "                            # all procs done\n                            for p in processes:\n                                p.join()\n                            self.timed_out = True\n                            break", "R1"),
    M("flag_never_set_parallel", KDG, "                    else:\n                        self.timed_out = True\n                        # terminate running processes", "                    else:\n                        # terminate running processes", "R1"),
    M("seq_break_without_flag", KDG, "                    if timeout != -1 and time.time() - start_time > timeout:\n                        self.timed_out = True\n                        break", "                    if timeout != -1 and time.time() - start_time > timeout:\n                        break", "R1"),
    M("deadline_ignores_minus_one", KDG, "                    if timeout != -1 and time.time() - start_time > timeout:", "                    if time.time() - start_time > timeout:", "R1"),
    M("no_join_after_kill", KDG, "                                os.kill(p.pid, signal.SIGKILL)\n                            p.join()", "                                os.kill(p.pid, signal.SIGKILL)", "R3"),
    M("no_kill_on_timeout", KDG, "                            if p.is_alive():\n                                # Python 3.6 does not support Process.kill().\n                                # Can be changed to `p.kill()` after EoL (01/22) of Py3.6\n                                os.kill(p.pid, signal.SIGKILL)\n                            p.join()",
      "                            p.join()", "R3"),
    M("no_join_when_done", KDG, "                            # all procs done\n                            for p in processes:\n                                p.join()\n                            break", "                            # all procs done\n                            break", "R3"),
    M("copy_outside_manager", KDG, "                            p.join()\n                all_paths = list(all_paths)\n        else:", "                            p.join()\n            all_paths = list(all_paths)\n        else:", "R4"),
    M("search_renumbers_originals", KDG, "temp_iform = copy.copy(orig_iform)", "temp_iform = orig_iform", "R5"),
    M("search_replaces_graph", KDG, "        dg = self.create_DG(tmp_kernel, flag_dependencies)\n", "        dg = self.create_DG(tmp_kernel, flag_dependencies)\n        self.dg = dg\n", "R5"),
    M("warning_not_from_flag", CLI, "            lcd_warning=kernel_graph.timed_out,\n            verbose=verbose,", "            lcd_warning=False,\n            verbose=verbose,", "R2"),
    M("timeout_not_from_cli", CLI, "kernel, parser, machine_model, semantics, args.lcd_timeout, args.consider_flag_deps", "kernel, parser, machine_model, semantics, 10, args.consider_flag_deps", "R2"),
    M("poll_break_inverted", KDG, "                        if any(p.is_alive() for p in processes):\n                            time.sleep(0.2)\n                        else:", "                        if not any(p.is_alive() for p in processes):\n                            time.sleep(0.2)\n                        else:", "R1"),
]

MUTANTS["C20"] = [
    M("revert_index_guard", DBI, "        if i + 3 > len(input_data) or (i + 3 < len(input_data) and input_data[i + 3].strip() != \"\"):", "        if input_data[i + 3].strip() != \"\":", "R4", "revert of the fix"),
    M("guard_too_weak", DBI, "        if i + 3 > len(input_data) or (", "        if i + 2 > len(input_data) or (", "R4"),
    M("malformed_continues", DBI, "                file=sys.stderr,\n            )\n            break\n        else:\n            i_form", "                file=sys.stderr,\n            )\n            continue\n        else:\n            i_form", "R4"),
    M("x86_y_is_xmm", DBI, '        return {"class": "register", "name": operand + "mm"}', '        return {"class": "register", "name": "xmm"}', "R1"),
    M("x86_scale_flag", DBI, '            "scale": 8 if "s" in operand else 1,\n        }\n    else:\n        raise ValueError("Parameter {} is not a valid operand code".format(operand))\n\n\n########################', '            "scale": 8 if "i" in operand else 1,\n        }\n    else:\n        raise ValueError("Parameter {} is not a valid operand code".format(operand))\n\n\n########################', "R1"),
    M("a64_default_shape", DBI, '"shape": operand[1:2] if operand[1:2] != "" else "d",', '"shape": operand[1:2] if operand[1:2] != "" else "s",', "R1"),
    M("a64_no_q", DBI, '    elif operand in "wxbhsdq":\n        return {"class": "register", "prefix": operand}', '    elif operand in "wxbhsd":\n        return {"class": "register", "prefix": operand}', "R1"),
    M("a64_post_index_flag", DBI, '"post_indexed": True if "p" in operand else False,\n        }\n    else:\n        raise ValueError("Parameter {} is not a valid operand code".format(operand))\n\n\ndef _create_db_operand_x86',
      '"post_indexed": True if "r" in operand else False,\n        }\n    else:\n        raise ValueError("Parameter {} is not a valid operand code".format(operand))\n\n\ndef _create_db_operand_x86', "R1"),
    M("operands_split_on_dash", DBI, '            operands = i_form.split("-")[1].split("_")', '            operands = i_form.split("-")[1].split("-")', "R1"),
    M("reciprocals_to_9", DBI, "reciprocals = [1 / x for x in range(1, 11)]", "reciprocals = [1 / x for x in range(1, 10)]", "R2"),
    M("tp_window_asymmetric", DBI, "if reci * 0.95 <= measurement <= reci * 1.05:", "if reci * 0.95 <= measurement <= reci * 1.5:", "R2"),
    M("lt_floor_rounding", DBI, "return float(round(measurement))", "return float(math.floor(measurement))", "R2"),
    M("lt_window_and", DBI, "            math.floor(measurement) * 1.05 >= measurement\n            or math.ceil(measurement) * 0.95 <= measurement", "            math.floor(measurement) * 1.05 >= measurement\n            and math.ceil(measurement) * 0.95 <= measurement", "R2"),
    M("invented_value", DBI, "    # measurement is incorrect\n    return None", "    # measurement is incorrect\n    return measurement", "R2"),
    M("asm_tp_lt_swapped", DBI, 'throughput=_validate_measurement(float(input_data[i + 2].split()[1]), "tp"),', 'throughput=_validate_measurement(float(input_data[i + 1].split()[1]), "tp"),', "R2"),
    M("ibench_lt_as_tp", DBI, 'entry.latency = _validate_measurement(float(line.split()[1]), "lt")', 'entry.latency = _validate_measurement(float(line.split()[1]), "tp")', "R2"),
    M("merge_key_full_name", DBI, 'key = "-".join(instruction.split("-")[:2])', 'key = "-".join(instruction.split("-")[:3])', "R3"),
    M("merge_always_new", DBI, "        if key in db_entries:\n            # add only TP/LT value\n            entry = db_entries[key]\n        else:\n            mnemonic_parsed", "        if False:\n            # add only TP/LT value\n            entry = db_entries[key]\n        else:\n            mnemonic_parsed", "R3"),
    M("only_first_entry_inserted", DBI, "    for entry in db_entries:\n        mm.set_instruction_entry(db_entries[entry])", "    for entry in db_entries:\n        mm.set_instruction_entry(db_entries[entry])\n        break", "R5"),
    M("new_form_not_listed", HW, '            self._data["instruction_forms"].append(instr_data)\n', "", "R5"),
    M("entry_args_swapped", HW, "            entry.latency,\n            entry.port_pressure,\n            entry.throughput,", "            entry.throughput,\n            entry.port_pressure,\n            entry.latency,", "R5"),
]

MUTANTS["C01"] = [
    M("share_constant_divisor", HW, "average_pressure[port_list.index(p)] += cycles / len(ports)", "average_pressure[port_list.index(p)] += cycles / 2", "R1"),
    M("share_overwrites", HW, "average_pressure[port_list.index(p)] += cycles / len(ports)", "average_pressure[port_list.index(p)] = cycles / len(ports)", "R1"),
    M("default_option_one", HW, "    def average_port_pressure(self, port_pressure, option=0):", "    def average_port_pressure(self, port_pressure, option=1):", "R1"),
    M("zero_without_uops_reset", ARCH, "            instruction_form.port_pressure = [0.0 for i in range(port_number)]\n            instruction_form.port_uops = []\n            flags.append(INSTR_FLAGS.TP_UNKWN)", "            instruction_form.port_pressure = [0.0 for i in range(port_number)]\n            flags.append(INSTR_FLAGS.TP_UNKWN)", "R1b"),
    M("found_uops_from_other_field", ARCH, "        instruction_form.port_uops = instruction_data.port_pressure\n", "        instruction_form.port_uops = instruction_data.uops\n", "R1b"),
    M("indices_all_ports", ARCH, "                indices = [port_list.index(p) for p in ports]\n                # check if port sum", "                indices = list(range(len(port_list)))\n                # check if port sum", "R2"),
    M("zero_index_any_port", ARCH, "                                    for p in indices\n                                    if round(instruction_form.port_pressure[p], 2) == 0", "                                    for p in range(len(port_list))\n                                    if round(instruction_form.port_pressure[p], 2) == 0", "R2"),
    M("itemsetter_wrong_target", ARCH, "self._itemsetter(*indices)(instruction_form.port_pressure, *instr_ports)\n                        # check if min port is zero", "self._itemsetter(*indices)(kernel[0].port_pressure, *instr_ports)\n                        # check if min port is zero", "R2"),
    M("unpaired_increment", ARCH, "                        instr_ports[max_port_idx] -= INC\n", "", "R3"),
    M("donor_is_min", ARCH, "                        max_port_idx = port_sums.index(max(port_sums))", "                        max_port_idx = port_sums.index(min(port_sums))", "R3"),
    M("cap_not_uniform_share", ARCH, "differences = [cycles / len(ports) for p in ports]", "differences = [cycles for p in ports]", "R3"),
    M("double_quantum_on_receiver", ARCH, "                        instr_ports[min_port_idx] += INC\n", "                        instr_ports[min_port_idx] += INC\n                        instr_ports[min_port_idx] += INC\n", "R3"),
    M("third_balancing_pass", CLI, "        semantics.assign_optimal_throughput(kernel)\n        semantics.assign_optimal_throughput(kernel)\n", "        semantics.assign_optimal_throughput(kernel)\n        semantics.assign_optimal_throughput(kernel)\n        semantics.assign_optimal_throughput(kernel)\n", "R4"),
    M("single_pass_is_fine", CLI, "        semantics.assign_optimal_throughput(kernel)\n        semantics.assign_optimal_throughput(kernel)\n", "        semantics.assign_optimal_throughput(kernel)\n", "SILENT", "repairing the known finding must not raise anything"),
    M("recursion_without_copy", ARCH, "                    k_tmp = deepcopy(kernel)\n", "                    k_tmp = kernel\n", "R4"),
    M("sum_counts_all_lines", ARCH, "port_pressures = [instr.port_pressure for instr in kernel if instr.throughput != 0.0]", "port_pressures = [instr.port_pressure for instr in kernel if instr.latency != 0.0]", "R5"),
    M("frontend_own_sum", FE, "            tp_sum = ArchSemantics.get_throughput_sum(kernel)\n            # if ALL instructions are unknown", "            tp_sum = [sum(col) for col in zip(*[instr.port_pressure for instr in kernel])]\n            # if ALL instructions are unknown", "R5"),
]

MUTANTS["C02"] = [
    M("receiver_is_max", ARCH, "                        min_port_idx = port_sums.index(min(port_sums))\n                        instr_ports[max_port_idx] -= INC", "                        min_port_idx = port_sums.index(max(port_sums))\n                        instr_ports[max_port_idx] -= INC", "P1"),
    M("no_write_back", ARCH, "                        self._itemsetter(*indices)(instruction_form.port_pressure, *instr_ports)\n                        # check if min port is zero", "                        # check if min port is zero", "P1"),
    M("quantum_coarser_than_rounding", ARCH, "        INC = 0.01\n", "        INC = 0.05\n", "P2"),
    M("totals_rounded_to_one_digit", ARCH, "tp_sum = [round(sum(col), 2) for col in zip(*port_pressures)]", "tp_sum = [round(sum(col), 1) for col in zip(*port_pressures)]", "P2"),
    M("main_takes_last_alternative", ARCH, "kernel[idx].port_uops = list(instruction_form.port_uops.values())[0]", "kernel[idx].port_uops = list(instruction_form.port_uops.values())[-1]", "P3"),
    M("collect_worst", ARCH, "if max(self.get_throughput_sum(k_tmp)) < best_kernel_tp:", "if max(self.get_throughput_sum(k_tmp)) > best_kernel_tp:", "P4"),
    M("swap_when_better", ARCH, "if max(self.get_throughput_sum(kernel)) > best_kernel_tp:", "if max(self.get_throughput_sum(kernel)) < best_kernel_tp:", "P4"),
    M("swap_only_uops", ARCH, "                    kernel[i].port_uops = best_kernel[i].port_uops\n                    kernel[i].port_pressure = best_kernel[i].port_pressure", "                    kernel[i].port_uops = best_kernel[i].port_uops", "P4"),
    M("swap_uops_conditionally_keeps_bottleneck", ARCH, "                    kernel[i].port_uops = best_kernel[i].port_uops\n                    kernel[i].port_pressure = best_kernel[i].port_pressure",
      "                    if isinstance(kernel[i].port_uops, dict):\n                        kernel[i].port_uops = instr.port_uops\n                    kernel[i].port_pressure = instr.port_pressure", "SILENT", "breaks C01 (R1b), not the bottleneck"),
    M("balance_always", ARCH, "                if len(set(port_sums)) > 1:", "                if len(set(port_sums)) >= 1:", "P5"),
    M("optimise_also_fixed", CLI, "    if not args.fixed:\n        semantics.assign_optimal_throughput(kernel)", "    if True:\n        semantics.assign_optimal_throughput(kernel)", "P6"),
    M("budget_doubled", ARCH, "for _ in range(int(cycles * (1 / INC))):", "for _ in range(int(2 * cycles * (1 / INC))):", "P2"),
]

_CP_NEW = '''            dg = self.dg.copy()
            sink = "sink"
            for instruction_form in self.kernel:
                if dg.has_node(instruction_form.line_number + 0.1):
                    # load is modeled as separate node, its latency is bound to the edge from it
                    last_latency = instruction_form.latency_wo_load
                else:
                    last_latency = instruction_form.latency
                dg.add_edge(instruction_form.line_number, sink, latency=last_latency)
            longest_path = nx.algorithms.dag.dag_longest_path(dg, weight="latency")
            for line_number in longest_path[:-1]:
                self._get_node_by_lineno(int(line_number)).latency_cp = 0
            # set cp latency to instruction
            for s, d in nx.utils.pairwise(longest_path):
                node = self._get_node_by_lineno(int(s))
                node.latency_cp += dg.edges[(s, d)]["latency"]
            return [x for x in self.kernel if x.line_number in longest_path[:-1]]
'''
_CP_OLD = '''            max_latency_instr = max(self.kernel, key=lambda k: k.latency)
            longest_path = nx.algorithms.dag.dag_longest_path(self.dg, weight="latency")
            for line_number in longest_path:
                self._get_node_by_lineno(int(line_number)).latency_cp = 0
            path_latency = 0.0
            for s, d in nx.utils.pairwise(longest_path):
                node = self._get_node_by_lineno(int(s))
                node.latency_cp = self.dg.edges[(s, d)]["latency"]
                path_latency += node.latency_cp
            node = self._get_node_by_lineno(int(longest_path[-1]))
            node.latency_cp = node.latency
            if max_latency_instr.latency > path_latency:
                max_latency_instr.latency_cp = float(max_latency_instr.latency)
                return [max_latency_instr]
            else:
                return [x for x in self.kernel if x.line_number in longest_path]
'''

MUTANTS["C04"] = [
    M("revert_cp_fix", KDG, _CP_NEW, _CP_OLD, "R3", "revert of the fix"),
    M("weight_key_wrong", KDG, 'longest_path = nx.algorithms.dag.dag_longest_path(dg, weight="latency")', 'longest_path = nx.algorithms.dag.dag_longest_path(dg, weight="lat")', "R1"),
    M("search_without_sink", KDG, 'longest_path = nx.algorithms.dag.dag_longest_path(dg, weight="latency")', 'longest_path = nx.algorithms.dag.dag_longest_path(self.dg, weight="latency") + [sink]', None),
    M("overwrite_not_accumulate", KDG, '                node.latency_cp += dg.edges[(s, d)]["latency"]', '                node.latency_cp = dg.edges[(s, d)]["latency"]', "R3"),
    M("terminal_always_full_latency", KDG, "                    last_latency = instruction_form.latency_wo_load\n", "                    last_latency = instruction_form.latency\n", "R3"),
    M("terminal_zero", KDG, "                dg.add_edge(instruction_form.line_number, sink, latency=last_latency)", "                dg.add_edge(instruction_form.line_number, sink, latency=0)", "R3"),
    M("sink_only_for_some", KDG, "            for instruction_form in self.kernel:\n                if dg.has_node(instruction_form.line_number + 0.1):", "            for instruction_form in self.kernel[1:]:\n                if dg.has_node(instruction_form.line_number + 0.1):", "R3"),
    M("modifies_shared_graph", KDG, "            dg = self.dg.copy()\n            sink", "            dg = self.dg\n            sink", "R3"),
    M("no_int_normalisation", KDG, "                node = self._get_node_by_lineno(int(s))\n                node.latency_cp +=", "                node = self._get_node_by_lineno(s)\n                node.latency_cp +=", None),
    M("other_edge_reported", KDG, '                node.latency_cp += dg.edges[(s, d)]["latency"]', '                node.latency_cp += dg.edges[(d, s)]["latency"]', "R3"),
    M("dict_total_from_latency", FE, '"CriticalPath": sum([x.latency_cp for x in cp_kernel]),', '"CriticalPath": sum([x.latency for x in cp_kernel]),', "R4"),
    M("returns_all_lines", KDG, "            return [x for x in self.kernel if x.line_number in longest_path[:-1]]", "            return [x for x in self.kernel]", "R5"),
    M("load_node_other_offset", KDG, "                dg.add_node(instruction_form.line_number + 0.1)\n", "                dg.add_node(instruction_form.line_number + 0.5)\n", "R2"),
]

MUTANTS["C09"] = [
    M("numbering_zero_based", BP, "asm_instructions.append(self.parse_line(line, i + 1 + start_line))", "asm_instructions.append(self.parse_line(line, i + start_line))", "R1"),
    M("blank_lines_prefiltered", BP, '        lines = file_content.split("\\n")\n', '        lines = [x for x in file_content.split("\\n") if x.strip() != ""]\n', "R1"),
    M("line_stripped", PX, "        instruction_form = InstructionForm(line=line, line_number=line_number)", "        instruction_form = InstructionForm(line=line.strip(), line_number=line_number)", "R2"),
    M("directive_before_label", PX, "result = self.process_operand(self.label.parseString(line, parseAll=True).asDict())\n                instruction_form.label = result[0].name",
      "result = self.process_operand(self.directive.parseString(line, parseAll=True).asDict())\n                instruction_form.label = result[0].name", "R3"),
    M("instruction_not_guarded", PX, "        # 4. Parse instruction\n        if result is None:", "        # 4. Parse instruction\n        if True:", "R3"),
    M("comment_prefix_match", PX, "result = self.process_operand(self.comment.parseString(line, parseAll=True).asDict())", "result = self.process_operand(self.comment.parseString(line).asDict())", "R3"),
    M("unparsable_swallowed", PX, "            except pp.ParseException:\n                raise ValueError(\n                    \"Could not parse instruction on line {}: {!r}\".format(line_number, line)\n                )", "            except pp.ParseException:\n                return instruction_form", "R3"),
    M("grammar_scale_renamed", PX, '                + pp.Optional(scale.setResultsName("scale"))\n                + pp.Literal(")")\n                + pp.Optional(\n                    pp.Literal("{")', '                + pp.Optional(scale.setResultsName("scl"))\n                + pp.Literal(")")\n                + pp.Optional(\n                    pp.Literal("{")', "R4"),
    M("reader_index_from_base", PX, '        index = memory_address.get("index", None)', '        index = memory_address.get("base", None)', "R4"),
    M("third_operand_dropped", PX, '        if "operand3" in result:\n            operands.append(self.process_operand(result["operand3"]))\n', "", "R4"),
    M("imm_base_10", PX, 'new_immediate = ImmediateOperand(value=int(immediate["value"], 0))', 'new_immediate = ImmediateOperand(value=int(immediate["value"]))', "R5"),
    M("plain_offset_base_10", PX, "                offset = ImmediateOperand(value=int(offset, 0))", "                offset = ImmediateOperand(value=int(offset))", "R5",
      "seeded change (round 9), inline form: a displacement-only address written in hexadecimal stays a string"),
    M("offset_base_10", PX, '            offset = ImmediateOperand(value=int(offset["value"], 0))', '            offset = ImmediateOperand(value=int(offset["value"], 10))', "R5"),
    M("scale_default_zero", PX, 'scale = 1 if "scale" not in memory_address else int(memory_address["scale"], 0)', 'scale = 0 if "scale" not in memory_address else int(memory_address["scale"], 0)', "R5"),
    M("base_index_swapped", PX, "new_dict = MemoryOperand(offset=offset, base=baseOp, index=indexOp, scale=scale)", "new_dict = MemoryOperand(offset=offset, base=indexOp, index=baseOp, scale=scale)", "R5"),
    M("no_trailing_comment_on_instruction", PX, '            + pp.Optional(operand_rest.setResultsName("operand4"))\n            + pp.Optional(self.comment)\n        )', '            + pp.Optional(operand_rest.setResultsName("operand4"))\n        )', "R6"),
    M("hex_digits_lowercase_only", PX, 'pp.Optional(pp.Literal("-")) + pp.Literal("0x") + pp.Word(pp.hexnums)', 'pp.Optional(pp.Literal("-")) + pp.Literal("0x") + pp.Word(pp.nums + "abcdef")', "T"),
    M("scale_without_8", PX, 'scale = pp.Word("1248", exact=1)', 'scale = pp.Word("124", exact=1)', "T"),
    M("no_negative_numbers", PX, "        decimal_number = pp.Combine(\n            pp.Optional(pp.Literal(\"-\")) + pp.Word(pp.nums)\n        ).setResultsName(\"value\")", "        decimal_number = pp.Combine(\n            pp.Word(pp.nums)\n        ).setResultsName(\"value\")", "T"),
    M("env_no_hex_displacement", PX, '        offset = pp.Group(hex_number | decimal_number | identifier).setResultsName(\n            self.immediate_id\n        )', '        offset = pp.Group(decimal_number | identifier).setResultsName(\n            self.immediate_id\n        )', "R7", tier="thorough"),
    M("env_index_needs_base", PX, '                + pp.Literal("(")\n                + pp.Optional(self.register.setResultsName("base"))\n                + pp.Optional(pp.Suppress(pp.Literal(",")))\n                + pp.Optional(self.register.setResultsName("index"))\n                + pp.Optional(pp.Suppress(pp.Literal(",")))\n                + pp.Optional(scale.setResultsName("scale"))\n                + pp.Literal(")")\n                + pp.Optional(\n                    pp.Literal("{")',
      '                + pp.Literal("(")\n                + self.register.setResultsName("base")\n                + pp.Optional(pp.Suppress(pp.Literal(",")))\n                + pp.Optional(self.register.setResultsName("index"))\n                + pp.Optional(pp.Suppress(pp.Literal(",")))\n                + pp.Optional(scale.setResultsName("scale"))\n                + pp.Literal(")")\n                + pp.Optional(\n                    pp.Literal("{")', "R7", tier="thorough"),
    M("env_three_operands_only", PX, '            + pp.Optional(pp.Suppress(pp.Literal(",")))\n            + pp.Optional(operand_rest.setResultsName("operand4"))\n', "", None, tier="thorough"),
    M("env_immediate_no_dollar_hex", PX, "pp.Literal(symbol_immediate) + (hex_number | decimal_number | identifier)", "pp.Literal(symbol_immediate) + (decimal_number | identifier)", "R7", tier="thorough"),
]

MUTANTS["C10"] = [
    M("revert_hex_index_shift", PA, 'scale = 2 ** int(memory_address["index"]["shift"][0]["value"], 0)', 'scale = 2 ** int(memory_address["index"]["shift"][0]["value"])', "R5", "revert of the fix"),
    M("revert_hex_arith_shift", PA, '                immediate["shift"]["value"], 0\n', '                immediate["shift"]["value"]\n', "R5", "revert of the fix"),
    M("post_index_base_10", PA, 'new_dict.post_indexed = {"value": int(memory_address["post_indexed"]["value"], 0)}', 'new_dict.post_indexed = {"value": int(memory_address["post_indexed"]["value"])}', "R5"),
    M("scale_linear", PA, 'scale = 2 ** int(memory_address["index"]["shift"][0]["value"], 0)', 'scale = 2 * int(memory_address["index"]["shift"][0]["value"], 0)', "R8"),
    M("scale_default_zero", PA, "        index = memory_address.get(\"index\", None)\n        scale = 1\n", "        index = memory_address.get(\"index\", None)\n        scale = 0\n", "R8"),
    M("sp_base_no_prefix", PA, '        if base is not None and "name" in base and base["name"].lower() == "sp":\n            base["prefix"] = "x"\n', "", "R9"),
    M("pre_index_ignored", PA, '        if "pre_indexed" in memory_address:\n            new_dict.pre_indexed = True\n', "", "R9"),
    M("range_exclusive", PA, "for name in range(int(start_name), int(end_name) + 1):", "for name in range(int(start_name), int(end_name)):", "R10"),
    M("range_index_not_propagated", PA, '                reg = deepcopy(base_register)\n                if index is not None:\n                    reg["index"] = int(index, 0)\n', '                reg = deepcopy(base_register)\n', "R10"),
    M("directive_after_instruction", PA, "result = self.process_operand(\n                    self.directive.parseString(line, parseAll=True).asDict()\n                )", "result = self.process_operand(\n                    self.label.parseString(line, parseAll=True).asDict()\n                )", "R3"),
    M("grammar_pre_indexed_renamed", PA, 'pp.Literal("!").setResultsName("pre_indexed")', 'pp.Literal("!").setResultsName("preindexed")', "R4"),
    M("reader_shape_key", PA, '            shape=operand["shape"].lower() if "shape" in operand else None,\n            lanes=operand["lanes"] if "lanes" in operand else None,\n            index=operand["index"] if "index" in operand else None,\n            predication=operand["predication"].lower() if "predication" in operand else None,\n        )\n\n    def process_memory_address',
      '            shape=operand["shp"].lower() if "shape" in operand else None,\n            lanes=operand["lanes"] if "lanes" in operand else None,\n            index=operand["index"] if "index" in operand else None,\n            predication=operand["predication"].lower() if "predication" in operand else None,\n        )\n\n    def process_memory_address', "R4"),
    M("fifth_operand_dropped", PA, '        if "operand5" in result:\n            operand = self.process_operand(result["operand5"])\n            operands.extend(operand) if isinstance(operand, list) else operands.append(operand)\n', "", "R4"),
    M("no_zr_alias_uppercase", PA, 'alias_r31_zr = pp.Regex("(?P<prefix>[a-zA-Z])?(?P<name>(zr|ZR))")', 'alias_r31_zr = pp.Regex("(?P<prefix>[a-zA-Z])?(?P<name>(zr))")', "T"),
    M("condition_ls_missing", PA, '            ^ pp.CaselessLiteral("LS")  # c clear or z set\n', "", "T"),
    M("lanes_without_16", PA, '                + pp.Optional(pp.Word("12468")).setResultsName("lanes")\n                + pp.Word(pp.alphas, exact=1).setResultsName("shape")\n            )\n            + pp.Optional(index)\n        )', '                + pp.Optional(pp.Word("2468")).setResultsName("lanes")\n                + pp.Word(pp.alphas, exact=1).setResultsName("shape")\n            )\n            + pp.Optional(index)\n        )', "T"),
    M("hash_mandatory", PA, "            pp.Optional(pp.Literal(symbol_immediate))\n            + (hex_number ^ decimal_number ^ float_ ^ double_)", "            pp.Literal(symbol_immediate)\n            + (hex_number ^ decimal_number ^ float_ ^ double_)", "R11"),
    M("normalize_base_10", PA, "                # hex or bin, return decimal\n                return int(imd.value, 0)", "                # hex or bin, return decimal\n                return int(imd.value)", None),
    M("env_no_post_index", PA, '                pp.Literal("!").setResultsName("pre_indexed")\n                | (pp.Suppress(pp.Literal(",")) + immediate.setResultsName("post_indexed"))', '                pp.Literal("!").setResultsName("pre_indexed")', None, tier="thorough"),
    M("env_no_register_range", PA, '                ^ pp.delimitedList(pp.Combine(self.list_element), delim="-").setResultsName(\n                    "range"\n                )\n', "", None, tier="thorough"),
    M("env_no_sp_alias", PA, "            (alias_r31_sp | alias_r31_zr | vector | scalar | predicate | register_list)\n            # (alias", "            (alias_r31_zr | vector | scalar | predicate | register_list)\n            # (alias", "R7", tier="thorough"),
    M("env_float_needs_exponent", PA, "double_ = pp.Group(mantissa + pp.Optional(exponent)).setResultsName(\"double\")", "double_ = pp.Group(mantissa + exponent).setResultsName(\"double\")", "R7", tier="thorough"),
]

MUTANTS["C19"] += [
    M("terminate_instead_of_kill", KDG, "                                os.kill(p.pid, signal.SIGKILL)", "                                p.terminate()", "R3", "SIGTERM can be caught or ignored"),
    M("process_kill_is_fine", KDG, "                                os.kill(p.pid, signal.SIGKILL)", "                                p.kill()", "SILENT", "Process.kill() sends SIGKILL"),
]
MUTANTS["C04"] += [
    M("sink_only_for_chain_ends", KDG, "            for instruction_form in self.kernel:\n                if dg.has_node(instruction_form.line_number + 0.1):", "            for instruction_form in self.kernel:\n                if dg.out_degree(instruction_form.line_number) > 0:\n                    continue\n                if dg.has_node(instruction_form.line_number + 0.1):", "R3", "seeded change C04"),
]
MUTANTS["C16"] += [
    M("floor_with_capped_workers", KDG, "            num_cores = cpu_count()\n            workload = int((klen - 1) / num_cores) + 1", "            num_cores = min(cpu_count(), klen)\n            workload = klen // num_cores", "R1", "seeded change C16"),
    M("capped_workers_ceiling_ok", KDG, "            num_cores = cpu_count()\n", "            num_cores = min(cpu_count(), klen)\n", "SILENT", "any positive worker count satisfies the lemma"),
    M("floor_inside_max", KDG, "workload = int((klen - 1) / num_cores) + 1", "workload = max(1, klen // num_cores)", "R1", "seeded change C05"),
]
_TMP_OLD = "            if tmpfile.exists():\n                tmpfile.unlink()\n"
MUTANTS["C20"] += [
    M("index_key_folded", HW, 'self._data["instruction_forms_dict"][mnemonic].append(instr_data)',
      'self._data["instruction_forms_dict"][mnemonic.upper()].append(instr_data)', "R7",
      "seeded change (round 9): new forms become visible to the constant operand comparison"),
]
MUTANTS["C17"] += [
    M("unlink_unguarded", HW, _TMP_OLD, "            tmpfile.unlink()\n", "R8", "after the rename the temporary file is gone"),
    M("unlink_glob_leftovers", HW, _TMP_OLD, '            for leftover in cachefile.parent.glob(cachefile.stem + ".*.tmp.pickle"):\n                leftover.unlink()\n',
      "R8", "seeded change (round 9): other processes' finished temporary files are deleted"),
    M("ok_unlink_missing_ok", HW, _TMP_OLD, "            tmpfile.unlink(missing_ok=True)\n", "SILENT", "behaviour-preserving"),
    M("ok_unlink_try", HW, _TMP_OLD, "            try:\n                tmpfile.unlink()\n            except FileNotFoundError:\n                pass\n", "SILENT", "behaviour-preserving"),
]
MUTANTS["C17"] += [
    M("runtime_cache_first", HW, "            # Check runtime cache\n            if self._path in MachineModel._runtime_cache and not lazy:\n                self._data = MachineModel._runtime_cache[self._path]\n            # check if file is cached\n            cached = self._get_cached(self._path) if not lazy else False",
      "            cached = False\n            if not lazy:\n                cached = MachineModel._runtime_cache.get(self._path) or self._get_cached(self._path)", "R5", "seeded change C17"),
]

_DBC_OLD = '''        if instr_form["throughput"] is None:
            missing_throughput.append(instr_form)
        if instr_form["latency"] is None:
            missing_latency.append(instr_form)
        if instr_form["port_pressure"] is None:
            missing_port_pressure.append(instr_form)
'''
_DBC_TABLE = '''        for key, missing in (
            ("throughput", missing_throughput),
            ("latency", missing_latency),
            ("port_pressure", missing_port_pressure),
        ):
            if instr_form[key] is None:
                missing.append(instr_form)
'''
MUTANTS["C15"] += [
    M("dbcheck_table_driven_with_break", DBI, _DBC_OLD, _DBC_TABLE + "                break\n", "D2", "seeded change C15"),
    M("dbcheck_table_driven", DBI, _DBC_OLD, _DBC_TABLE, "SILENT", "behaviour-preserving table-driven rewrite"),
    M("dbcheck_elif_chain", DBI, '        if instr_form["latency"] is None:\n            missing_latency.append(instr_form)', '        elif instr_form["latency"] is None:\n            missing_latency.append(instr_form)', "D2"),
]

MUTANTS["C13"] += [
    M("text_selects_last_of_ties", FE, "            longest_lcd = max(dep_dict, key=lambda ln: dep_dict[ln][\"latency\"])\n            lcd_sum = dep_dict[longest_lcd][\"latency\"]\n            lcd_lines = {\n                instr.line_number: lat for instr, lat in dep_dict[longest_lcd][\"dependencies\"]\n            }\n\n        port_line",
      "            longest_lcd = sorted(dep_dict, key=lambda ln: dep_dict[ln][\"latency\"])[-1]\n            lcd_sum = dep_dict[longest_lcd][\"latency\"]\n            lcd_lines = {\n                instr.line_number: lat for instr, lat in dep_dict[longest_lcd][\"dependencies\"]\n            }\n\n        port_line", "R1", "seeded change C13"),
]
MUTANTS["C05"] += [
    M("text_selects_last_of_ties_is_a_maximum", FE, "            longest_lcd = max(dep_dict, key=lambda ln: dep_dict[ln][\"latency\"])\n            lcd_sum = dep_dict[longest_lcd][\"latency\"]\n            lcd_lines = {\n                instr.line_number: lat for instr, lat in dep_dict[longest_lcd][\"dependencies\"]\n            }\n\n        port_line",
      "            longest_lcd = sorted(dep_dict, key=lambda ln: dep_dict[ln][\"latency\"])[-1]\n            lcd_sum = dep_dict[longest_lcd][\"latency\"]\n            lcd_lines = {\n                instr.line_number: lat for instr, lat in dep_dict[longest_lcd][\"dependencies\"]\n            }\n\n        port_line", "SILENT", "still a maximum-latency cycle: C05 holds (C13 does not)"),
]

MUTANTS["C01"] += [
    M("swap_uops_conditionally", ARCH, "                    kernel[i].port_uops = best_kernel[i].port_uops\n                    kernel[i].port_pressure = best_kernel[i].port_pressure",
      "                    if isinstance(kernel[i].port_uops, dict):\n                        kernel[i].port_uops = instr.port_uops\n                    kernel[i].port_pressure = instr.port_pressure", "R1b", "seeded change C01"),
]

MUTANTS["C09"] += [
    M("hex_regex_without_sign", PX, '        hex_number = pp.Combine(\n            pp.Optional(pp.Literal("-")) + pp.Literal("0x") + pp.Word(pp.hexnums)\n        ).setResultsName("value")', '        hex_number = pp.Regex(r"0x[0-9a-fA-F]+").setResultsName("value")', "T", "seeded change C09"),
    M("decimal_as_regex_is_fine", PX, '        decimal_number = pp.Combine(\n            pp.Optional(pp.Literal("-")) + pp.Word(pp.nums)\n        ).setResultsName("value")', '        decimal_number = pp.Regex(r"-?[0-9]+").setResultsName("value")', "SILENT", "behaviour-preserving rewrite of a terminal"),
    M("hex_as_regex_is_fine", PX, '        hex_number = pp.Combine(\n            pp.Optional(pp.Literal("-")) + pp.Literal("0x") + pp.Word(pp.hexnums)\n        ).setResultsName("value")', '        hex_number = pp.Regex(r"-?0x[0-9a-fA-F]+").setResultsName("value")', "SILENT", "behaviour-preserving rewrite of a terminal"),
]
MUTANTS["C10"] += [
    M("range_wraparound_string_compare", PA, "            for name in range(int(start_name), int(end_name) + 1):\n                reg = deepcopy(base_register)\n                if index is not None:\n                    reg[\"index\"] = int(index, 0)\n                reg[\"name\"] = str(name)",
      "            last = int(end_name) + (32 if end_name < start_name else 0)\n            for name in range(int(start_name), last + 1):\n                reg = deepcopy(base_register)\n                if index is not None:\n                    reg[\"index\"] = int(index, 0)\n                reg[\"name\"] = str(name % 32)", "R10", "seeded change C10"),
]

MUTANTS["C02"] += [
    M("balance_only_loaded_ports", ARCH, "                indices = [port_list.index(p) for p in ports]\n                # check if port sum", "                indices = [port_list.index(p) for p in ports]\n                indices = [i for i in indices if instruction_form.port_pressure[i] > 0]\n                if len(indices) < 2:\n                    continue\n                # check if port sum", "P7", "seeded change C02"),
]
MUTANTS["C01"] += [
    M("balance_only_loaded_ports_is_feasible", ARCH, "                indices = [port_list.index(p) for p in ports]\n                # check if port sum", "                indices = [port_list.index(p) for p in ports]\n                indices = [i for i in indices if instruction_form.port_pressure[i] > 0]\n                if len(indices) < 2:\n                    continue\n                # check if port sum", "SILENT", "a subset of the micro-op's own ports: feasibility (C01) is not affected, optimality (C02-P7) is"),
]

# ---- round 2: line numbering forms (rule R1 derives the number symbolically) -------------------------------------
_NUM_OLD = ('        lines = file_content.split("\\n")\n        for i, line in enumerate(lines):\n            if line.strip() == "":\n'
            '                continue\n            asm_instructions.append(self.parse_line(line, i + 1 + start_line))\n')
_NUM = {
    "ok_direct": ('        for i, line in enumerate(file_content.split("\\n")):\n            if line.strip() == "":\n                continue\n'
                  '            asm_instructions.append(self.parse_line(line, i + 1 + start_line))\n'),
    "ok_enumerate_start": ('        for i, line in enumerate(file_content.split("\\n"), start_line + 1):\n            if line.strip():\n'
                           '                asm_instructions.append(self.parse_line(line, i))\n'),
    "ok_counter": ('        line_number = start_line\n        for line in file_content.split("\\n"):\n            line_number += 1\n'
                   '            if line.strip() == "":\n                continue\n'
                   '            asm_instructions.append(self.parse_line(line, line_number))\n'),
    "ok_counter_after": ('        line_number = start_line + 1\n        for line in file_content.split("\\n"):\n            if line.strip() != "":\n'
                         '                asm_instructions.append(self.parse_line(line, line_number))\n            line_number += 1\n'),
    "ok_rstrip": ('        lines = file_content.rstrip("\\n").split("\\n")\n        for i, line in enumerate(lines):\n            if not line.strip():\n'
                  '                continue\n            asm_instructions.append(self.parse_line(line, i + start_line + 1))\n'),
    "ok_comprehension": ('        asm_instructions = [\n            self.parse_line(text, start_line + 1 + index)\n            for index, text in enumerate(file_content.split("\\n"))\n            if text.strip()\n        ]\n'),
    "bad_comprehension_prefiltered": ('        asm_instructions = [\n            self.parse_line(text, start_line + 1 + index)\n            for index, text in enumerate(t for t in file_content.split("\\n") if t.strip())\n        ]\n'),
    "bad_counter_skips_blank": ('        line_number = start_line\n        for line in file_content.split("\\n"):\n            if line.strip() == "":\n'
                                '                continue\n            line_number += 1\n'
                                '            asm_instructions.append(self.parse_line(line, line_number))\n'),
    "bad_strip_leading": ('        lines = file_content.strip("\\n").split("\\n")\n        for i, line in enumerate(lines, start=start_line + 1):\n'
                          '            if line.strip() == "":\n                continue\n'
                          '            asm_instructions.append(self.parse_line(line, i))\n'),
    "bad_enumerate_start_plus_one": ('        for i, line in enumerate(file_content.split("\\n"), start=1):\n            if not line.strip():\n'
                                     '                continue\n            asm_instructions.append(self.parse_line(line, start_line + i + 1))\n'),
    "bad_counter_after_off_by_one": ('        line_number = start_line\n        for line in file_content.split("\\n"):\n            if line.strip() != "":\n'
                                     '                asm_instructions.append(self.parse_line(line, line_number))\n            line_number += 1\n'),
    "bad_skips_hash_lines": ('        for i, line in enumerate(file_content.split("\\n")):\n            if line.strip() == "" or line.startswith("#"):\n'
                             '                continue\n            asm_instructions.append(self.parse_line(line, i + 1 + start_line))\n'),
}
for _p in ("C09", "C10"):
    for _n, _new in _NUM.items():
        MUTANTS[_p].append(M("numbering_" + _n, BP, _NUM_OLD, _new, "SILENT" if _n.startswith("ok_") else "R1",
                             "behaviour-preserving form" if _n.startswith("ok_") else
                             ("seeded change (round 2)" if _n in ("bad_counter_skips_blank", "bad_strip_leading") else "")))

MUTANTS["C04"] += [
    M("reset_loop_removed", KDG, "            for line_number in longest_path[:-1]:\n                self._get_node_by_lineno(int(line_number)).latency_cp = 0\n", "",
      "R3", "seeded change (round 2): per-line CP values double on every further call"),
]

MUTANTS["C06"] += [
    M("state_init_hoisted_out_of_dst_loop", KDG,
      ["        for dst in chain(\n            instruction_form.semantic_operands[\"destination\"],\n            instruction_form.semantic_operands[\"src_dst\"],\n        ):\n            # TODO instructions before",
       "            register_changes = self._update_reg_changes(instruction_form)\n            # print(\"FROM\""],
      ["        register_changes = self._update_reg_changes(instruction_form)\n        for dst in chain(\n            instruction_form.semantic_operands[\"destination\"],\n            instruction_form.semantic_operands[\"src_dst\"],\n        ):\n            # TODO instructions before",
       "            # print(\"FROM\""],
      "R4", "seeded change (round 2): state leaks from one destination's scan into the next"),
]

MUTANTS["C10"] += [
    M("register_index_truthiness", PA, '            index=operand["index"] if "index" in operand else None,', '            index=operand.get("index") or None,', "R12",
      "seeded change (round 2): element index 0 of an expanded list/range member is dropped"),
    M("register_lanes_truthiness_is_fine", PA, '            lanes=operand["lanes"] if "lanes" in operand else None,', '            lanes=operand.get("lanes") or None,', "SILENT",
      "lanes is a non-empty token string: truthiness and presence coincide"),
]

_SEQ_Q = "                    dg.subgraph(on_path), source, target\n                ):\n                    all_paths.append(path)"
_WRK_Q = "                dg, instr.line_number, instr.line_number + offset\n            )\n            tmp_list"
MUTANTS["C05"] += [
    M("worker_depth_bound_is_slice_length", KDG, [_SEQ_Q, _WRK_Q],
      [_SEQ_Q.replace("source, target\n", "source, target, cutoff=klen\n"), _WRK_Q.replace("+ offset\n", "+ offset, cutoff=len(kernel)\n")], "R3",
      "seeded change (round 2): in the worker `kernel` is its slice of roots"),
    M("depth_bound_by_node_count_is_fine", KDG, [_SEQ_Q, _WRK_Q],
      [_SEQ_Q.replace("source, target\n", "source, target, cutoff=len(dg)\n"), _WRK_Q.replace("+ offset\n", "+ offset, cutoff=len(dg)\n")], "SILENT",
      "a simple path cannot have more edges than the graph has nodes"),
    M("seq_skips_roots_already_on_a_cycle", KDG,
      ["            start_time = time.time()\n            for instr in kernel:\n                source, target", "                    all_paths.append(path)\n                    if timeout != -1"],
      ["            start_time = time.time()\n            visited = set()\n            for instr in kernel:\n                if instr.line_number in visited:\n                    continue\n                source, target",
       "                    all_paths.append(path)\n                    visited.update(path)\n                    if timeout != -1"], "R3",
      "seeded change (round 2, given for C14): second cycle through an instruction is lost, depends on rotation"),
    M("worker_skips_roots_already_on_a_cycle", KDG,
      ["        for instr in kernel:\n            generator_path", "            dst_list.extend(tmp_list)"],
      ["        visited = set()\n        for instr in kernel:\n            if instr.line_number in visited:\n                continue\n            generator_path",
       "            visited.update(x for pth in tmp_list for x in pth)\n            dst_list.extend(tmp_list)"], "R3", "seeded change (round 2, given for C14)"),
]
MUTANTS["C16"] += [
    M("worker_depth_bound_is_slice_length", KDG, [_SEQ_Q, _WRK_Q],
      [_SEQ_Q.replace("source, target\n", "source, target, cutoff=klen\n"), _WRK_Q.replace("+ offset\n", "+ offset, cutoff=len(kernel)\n")], "R2",
      "seeded change (round 2): the worker bounds the depth by its slice length, the sequential search by the kernel length"),
    M("different_but_sufficient_depth_bounds_are_fine", KDG, [_SEQ_Q, _WRK_Q],
      [_SEQ_Q.replace("source, target\n", "source, target, cutoff=klen\n"), _WRK_Q.replace("+ offset\n", "+ offset, cutoff=len(dg)\n")], "SILENT",
      "both bounds are at least the longest possible path"),
    M("worker_skips_roots_already_on_a_cycle", KDG,
      ["        for instr in kernel:\n            generator_path", "            dst_list.extend(tmp_list)"],
      ["        visited = set()\n        for instr in kernel:\n            if instr.line_number in visited:\n                continue\n            generator_path",
       "            visited.update(x for pth in tmp_list for x in pth)\n            dst_list.extend(tmp_list)"], "R2",
      "which roots are skipped depends on the slice boundaries, i.e. on the worker count"),
]

_DEDUP_OLD = "            lat_path.sort()\n\n            # Ignore duplicate paths which differ only in the root node\n            if tuple(lat_path) in paths_set:\n                continue\n            paths_set.add(tuple(lat_path))\n"
for _p, _r in (("C05", "R4"), ("C16", "R3")):
    MUTANTS[_p] += [
        M("sorted_rebinding_is_fine", KDG, _DEDUP_OLD, _DEDUP_OLD.replace("lat_path.sort()", "lat_path = sorted(lat_path)"), "SILENT", "behaviour-preserving"),
        M("separate_sorted_key_is_fine", KDG, _DEDUP_OLD, "            lat_path.sort()\n            path_key = tuple(sorted(lat_path))\n            if path_key in paths_set:\n                continue\n            paths_set.add(path_key)\n", "SILENT", "behaviour-preserving"),
        M("stored_list_left_unsorted", KDG, _DEDUP_OLD, "            path_key = tuple(sorted(lat_path))\n            if path_key in paths_set:\n                continue\n            paths_set.add(path_key)\n", _r,
          "seeded change (round 2): the kept rotation depends on which root's path arrives first"),
    ]

# ---- round 2: the cache key computed by a streaming helper --------------------------------------------------------
_HK_OLD1 = "        p = Path(filepath)\n        hexhash = hashlib.sha256(p.read_bytes()).hexdigest()\n\n        # 1. companion cachefile: same location"
_HK_OLD2 = "        p = Path(filepath)\n        hexhash = hashlib.sha256(p.read_bytes()).hexdigest()\n        # 1. companion cachefile: same location"
_HK_ANCHOR = "    def _get_cached(self, filepath):\n"


def _hk(body):
    return ([_HK_ANCHOR, _HK_OLD1, _HK_OLD2],
            ["    @staticmethod\n    def _hash_file(p, blocksize=1 << 16):\n        sha = hashlib.sha256()\n        with p.open(\"rb\") as f:\n" + body
             + "        return sha.hexdigest()\n\n" + _HK_ANCHOR,
             _HK_OLD1.replace("hashlib.sha256(p.read_bytes()).hexdigest()", "self._hash_file(p)"),
             _HK_OLD2.replace("hashlib.sha256(p.read_bytes()).hexdigest()", "self._hash_file(p)")])


_HK = {
    "ok_while_block": "            block = f.read(blocksize)\n            while block:\n                sha.update(block)\n                block = f.read(blocksize)\n",
    "ok_iter_sentinel": "            for block in iter(lambda: f.read(blocksize), b\"\"):\n                sha.update(block)\n",
    "ok_while_true_break": "            while True:\n                block = f.read(blocksize)\n                if not block:\n                    break\n                sha.update(block)\n",
    "ok_walrus": "            while (block := f.read(blocksize)):\n                sha.update(block)\n",
    "ok_read_all": "            sha.update(f.read())\n",
    "bad_drops_last_partial_block": "            block = f.read(blocksize)\n            while len(block) == blocksize:\n                sha.update(block)\n                block = f.read(blocksize)\n",
    "bad_first_block_only": "            block = f.read(blocksize)\n            sha.update(block)\n            block = f.read(blocksize)\n",
    "bad_break_before_update": "            while True:\n                block = f.read(blocksize)\n                if len(block) < blocksize:\n                    break\n                sha.update(block)\n",
    "bad_iter_skips_short": "            for block in iter(lambda: f.read(blocksize), b\"\"):\n                if len(block) < blocksize:\n                    continue\n                sha.update(block)\n",
}
for _n, _b in _HK.items():
    _o, _nw = _hk(_b)
    MUTANTS["C17"].append(M("hash_helper_" + _n, HW, _o, _nw, "SILENT" if _n.startswith("ok_") else "R1",
                            "behaviour-preserving streaming hash" if _n.startswith("ok_") else
                            ("seeded change (round 2)" if "last_partial" in _n else "part of the file does not enter the key")))

_CLK_OLD = ["                    start_time = time.time()\n                    while time.time() - start_time <= timeout:",
            "            start_time = time.time()\n            for instr in kernel:",
            "                    if timeout != -1 and time.time() - start_time > timeout:"]


def _clk(expr, attr=None):
    new = [o.replace("time.time()", expr) for o in _CLK_OLD]
    if attr:
        return (["    INSTRUCTION_THRESHOLD = 50\n"] + _CLK_OLD, ["    INSTRUCTION_THRESHOLD = 50\n    _clock = staticmethod(%s)\n" % attr] + new)
    return (_CLK_OLD, new)


MUTANTS["C19"] += [
    M("cpu_clock_via_class_attribute", KDG, *_clk("self._clock()", "time.process_time"), "R1", "seeded change (round 2): the parent's CPU clock stands still while it polls"),
    M("cpu_clock_direct", KDG, *_clk("time.process_time()"), "R1"),
    M("monotonic_clock_is_fine", KDG, *_clk("time.monotonic()"), "SILENT", "a wall clock"),
    M("wall_clock_via_class_attribute_is_fine", KDG, *_clk("self._clock()", "time.perf_counter"), "SILENT", "a wall clock behind an alias"),
]

MUTANTS["C18"] += [
    M("parse_file_memoised", BP, ["import re\n", "    def parse_file(self, file_content, start_line=0):"],
      ["import re\nfrom functools import lru_cache\n", "    @lru_cache(maxsize=64)\n    def parse_file(self, file_content, start_line=0):"], "R2",
      "seeded change (round 1): a second analysis of the same text gets the instruction forms the first one annotated"),
    M("memoised_pure_string_function_is_fine", BP, ["import re\n", "    @staticmethod\n    def detect_ISA(file_content):"],
      ["import re\nfrom functools import lru_cache\n", "    @staticmethod\n    @lru_cache(maxsize=8)\n    def detect_ISA(file_content):"], "SILENT",
      "the cached value is a string"),
]

MUTANTS["C01"] += [
    M("revert_inplace_uops", ARCH, "data_port_uops = data_port_uops + st_data_port_uops", "data_port_uops += st_data_port_uops", "R6",
      "revert of the fix = seeded change (round 2): store micro-ops leak into the model's load row, later loads get pressure on store ports"),
]

MUTANTS["C03"] += [
    M("suffix_retry_keeps_memory_operand", ISA, "                        instruction_form.mnemonic[:-1], operands_reg\n", "                        instruction_form.mnemonic[:-1], instruction_form.operands\n", "R9",
      "seeded change (round 2): sbbq/adcq with a memory source silently get default roles"),
]

MUTANTS["C20"] += [
    M("bare_v_shape_empty", DBI, '"shape": operand[1:2] if operand[1:2] != "" else "d",', '"shape": operand[1:2] if operand[1:2] in "bhsd" else "d",', "R1",
      "seeded change (round 2): '' is a substring of every string, the documented default lane width d is lost"),
    M("x86_memory_operand_is_one_global_dict", DBI, '    elif operand.startswith("m"):\n        return {\n            "class": "memory",\n            "base": "gpr" if "b" in operand else None,\n            "offset": "imd" if "o" in operand else None,\n            "index": "gpr" if "i" in operand else None,\n            "scale": 8 if "s" in operand else 1,\n        }\n    else:\n        raise ValueError("Parameter {} is not a valid operand code".format(operand))\n\n\n########################\n# HELPERS SANITY CHECK #', '    elif operand.startswith("m"):\n        mem = _X86_MEM\n        mem["base"] = "gpr" if "b" in operand else None\n        mem["offset"] = "imd" if "o" in operand else None\n        mem["index"] = "gpr" if "i" in operand else None\n        mem["scale"] = 8 if "s" in operand else 1\n        return mem\n    else:\n        raise ValueError("Parameter {} is not a valid operand code".format(operand))\n\n\n_X86_MEM = {"class": "memory", "base": None, "offset": None, "index": None, "scale": 1}\n\n\n########################\n# HELPERS SANITY CHECK #', "R6", "round 4: all memory operands are one object, the last decoding wins"),
    M("x86_memory_operand_copied_template_is_fine", DBI, '    elif operand.startswith("m"):\n        return {\n            "class": "memory",\n            "base": "gpr" if "b" in operand else None,\n            "offset": "imd" if "o" in operand else None,\n            "index": "gpr" if "i" in operand else None,\n            "scale": 8 if "s" in operand else 1,\n        }\n    else:\n        raise ValueError("Parameter {} is not a valid operand code".format(operand))\n\n\n########################\n# HELPERS SANITY CHECK #', '    elif operand.startswith("m"):\n        mem = dict(_X86_MEM)\n        mem["base"] = "gpr" if "b" in operand else None\n        mem["offset"] = "imd" if "o" in operand else None\n        mem["index"] = "gpr" if "i" in operand else None\n        mem["scale"] = 8 if "s" in operand else 1\n        return mem\n    else:\n        raise ValueError("Parameter {} is not a valid operand code".format(operand))\n\n\n_X86_MEM = {"class": "memory", "base": None, "offset": None, "index": None, "scale": 1}\n\n\n########################\n# HELPERS SANITY CHECK #', "SILENT", "a copy of the template is edited"),
    M("shape_default_by_or_is_fine", DBI, '"shape": operand[1:2] if operand[1:2] != "" else "d",', '"shape": operand[1:2] or "d",', "SILENT", "behaviour-preserving"),
    M("scalar_codes_as_tuple_is_fine", DBI, 'elif operand in "wxbhsdq":', 'elif operand in ("w", "x", "b", "h", "s", "d", "q"):', "SILENT", "behaviour-preserving on the documented codes"),
    M("x86_gpr_by_equality_is_fine", DBI, 'if operand.startswith("r"):', 'if operand == "r":', "SILENT", "the documented code is 'r'"),
    M("pre_indexed_by_membership_is_fine", DBI, '"pre_indexed": True if "r" in operand else False,', '"pre_indexed": "r" in operand,', "SILENT", "behaviour-preserving"),
    M("scale_flag_confused_with_index", DBI, '"scale": 8 if "s" in operand else 1,\n            "pre_indexed"', '"scale": 8 if "i" in operand else 1,\n            "pre_indexed"', "R1"),
]

for _n, _new in _NUM.items():
    MUTANTS["C11"].append(M("numbering_" + _n, BP, _NUM_OLD, _new, "SILENT" if _n.startswith("ok_") else "R6",
                            "behaviour-preserving form" if _n.startswith("ok_") else "--lines then names other lines than the file's"))

MUTANTS["C08"] += [
    M("revert_load_rows_lose_index_flags", HW, '                                    pre_indexed=m["pre_indexed"] if "pre_indexed" in m else False,\n                                    post_indexed=m["post_indexed"] if "post_indexed" in m else False,\n                                    dst=',
      '                                    dst=', "D2", "revert of the fix (load table)"),
    M("revert_store_rows_lose_index_flags", HW, '                                    pre_indexed=m["pre_indexed"] if "pre_indexed" in m else False,\n                                    post_indexed=m["post_indexed"] if "post_indexed" in m else False,\n                                    src=',
      '                                    src=', "D2", "revert of the fix (store table)"),
    M("row_flags_via_get_is_fine", HW, '                                    pre_indexed=m["pre_indexed"] if "pre_indexed" in m else False,\n                                    post_indexed=m["post_indexed"] if "post_indexed" in m else False,\n                                    dst=',
      '                                    pre_indexed=m.get("pre_indexed", False),\n                                    post_indexed=m.get("post_indexed", False),\n                                    dst=', "SILENT", "behaviour-preserving"),
    M("load_rows_lose_scale", HW, '                                    scale=m["scale"],\n                                    index=m["index"],\n                                    pre_indexed=m["pre_indexed"] if "pre_indexed" in m else False,\n                                    post_indexed=m["post_indexed"] if "post_indexed" in m else False,\n                                    dst=',
      '                                    index=m["index"],\n                                    pre_indexed=m["pre_indexed"] if "pre_indexed" in m else False,\n                                    post_indexed=m["post_indexed"] if "post_indexed" in m else False,\n                                    dst=', "D2"),
]

MUTANTS["C08"] += [
    M("revert_role_list_type_test", ARCH, '                                and not any(\n                                    isinstance(op, MemoryOperand)\n                                    for op in instruction_form.semantic_operands["destination"]\n                                )\n',
      '                                and not isinstance(\n                                    instruction_form.semantic_operands["destination"],\n                                    MemoryOperand,\n                                )\n', "R5", "revert of the fix"),
]

MUTANTS["C16"] += [
    M("revert_flags_set_order", ARCH, "        flags = list(dict.fromkeys(flags))\n", "        flags = list(set(flags))\n", "R5", "revert of the fix"),
    M("flags_sorted_set_is_fine", ARCH, "        flags = list(dict.fromkeys(flags))\n", "        flags = sorted(set(flags))\n", "SILENT", "a total order removes the hash dependence"),
]

_PART_OLD = ("            starts = [tid * workload for tid in range(num_cores)]\n            ends = [min((tid + 1) * workload, klen) for tid in range(num_cores)]\n"
             "            instrs = [kernel[s:e] for s, e in zip(starts, ends)]\n")
_PART_DIRECT = ("            instrs = [\n                kernel[first : first + workload]\n                for first in range(0, num_cores * workload, workload)\n            ]\n")
for _p, _r in (("C16", "R1"), ("C05", "R3")):
    MUTANTS[_p] += [
        M("direct_slices_are_fine", KDG, _PART_OLD, _PART_DIRECT, "SILENT", "slicing clips at the end of the kernel; c * ceil(n/c) >= n"),
        M("direct_slices_floor_chunk", KDG, [_PART_OLD, "workload = int((klen - 1) / num_cores) + 1"], [_PART_DIRECT, "workload = max(1, klen // num_cores)"], _r,
          "range(0, c * floor(n/c), W) stops before the end of the kernel"),
    ]

_ONPATH_OLD = ('                source, target = instr.line_number, instr.line_number + offset\n'
               '                # restrict the search to the nodes lying on a path source -> target: dg is acyclic, so\n'
               '                # every branch of the enumeration then ends in a path and the timeout below is checked\n'
               '                # regularly (otherwise the generator can run for a very long time without yielding)\n'
               '                on_path = (nx.descendants(dg, source) | {source}) & (nx.ancestors(dg, target) | {target})\n'
               '                if target not in on_path or source not in on_path:\n                    continue\n'
               '                for path in nx.algorithms.simple_paths.all_simple_paths(\n                    dg.subgraph(on_path), source, target\n                ):\n')
_ONPATH_REVERT = ('                for path in nx.algorithms.simple_paths.all_simple_paths(\n                    dg, instr.line_number, instr.line_number + offset\n                ):\n')
MUTANTS["C19"] += [
    M("revert_search_confined_to_paths", KDG, _ONPATH_OLD, _ONPATH_REVERT, "R6", "revert of the fix: the sequential deadline is only tested when a path is found"),
]
MUTANTS["C05"] += [
    M("unconfined_search_is_fine", KDG, _ONPATH_OLD, _ONPATH_REVERT, "SILENT", "the set of paths is the same with and without the restriction"),
    M("subgraph_of_descendants_only_loses_nothing_but_is_not_understood", KDG, "on_path = (nx.descendants(dg, source) | {source}) & (nx.ancestors(dg, target) | {target})",
      "on_path = set(list(dg.nodes)[: len(dg) // 2])", "R3", "a sub-graph that drops nodes loses cycles: roots are skipped on a test that is not an unreachability test"),
]
MUTANTS["C16"] += [
    M("unconfined_search_is_fine", KDG, _ONPATH_OLD, _ONPATH_REVERT, "SILENT", "the set of paths is the same with and without the restriction"),
]

MUTANTS["C01"] += [
    M("port_string_that_is_a_port_name", HW, "        for cycles, ports in used_pp:\n            for p in ports:", "        for cycles, ports in used_pp:\n            if ports in port_list:\n                ports = [ports]\n            for p in ports:", "R1",
      "seeded change (round 4): zen3's set string '12' is also the name of port 12"),
    M("port_set_copied_is_fine", HW, "        for cycles, ports in used_pp:\n            for p in ports:", "        for cycles, ports in used_pp:\n            ports = list(ports)\n            for p in ports:", "SILENT", "a copy of the same set"),
]

MUTANTS["C03"] += [
    M("written_operands_deduplicated_by_name", KDG,
      "            # TODO instructions before must be considered as well, if they update registers\n",
      "            if isinstance(dst, RegisterOperand):\n                if dst.name in scanned_regs:\n                    continue\n                scanned_regs.add(dst.name)\n            # TODO instructions before must be considered as well, if they update registers\n",
      "R2", "seeded change (round 4): AArch64 q0 and x0 share the name '0'"),
]

for _p, _r in (("C04", "R6"), ("C03", "R7")):
    MUTANTS[_p] += [
        M("edge_weight_or_fallback", KDG, '                edge_weight = (\n                    instruction_form.latency\n                    if "mem_dep" in dep_flags or instruction_form.latency_wo_load is None\n                    else instruction_form.latency_wo_load\n                )',
          '                edge_weight = instruction_form.latency_wo_load or instruction_form.latency', _r,
          "seeded change (round 4): 0.0 is falsy, the load stage is counted twice"),
    ]

for _p, _r in (("C16", "R1"), ("C05", "R3"), ("C11", "R7"), ("C19", "R7")):
    MUTANTS[_p] += [
        M("partition_bound_counts_instructions_only", KDG, "        klen = len(kernel)\n", "        klen = len([i for i in kernel if i.mnemonic is not None])\n", _r,
          "seeded change (round 4, given for C11 and for C19): the tail of the kernel is given to no worker"),
    ]

_NUMREG_OLD = ('        ma = re.match(r"R([0-9]+)[DWB]?", reg_a_name)\n        mb = re.match(r"R([0-9]+)[DWB]?", reg_b_name)\n        if ma and mb and ma.group(1) == mb.group(1):\n            return True\n')
_NUMREG_HELPER = ('\n    def _numbered_gpr_index(self, reg_name):\n        match = re.match(r"R([0-9]+)[DWB]?", reg_name, re.IGNORECASE)\n        return match.group(1) if match else None\n\n    def is_basic_gpr(self, register):')
MUTANTS["C12"] += [
    M("numbered_index_none_equals_none", PX, [_NUMREG_OLD, "\n    def is_basic_gpr(self, register):"],
      ['        if self._numbered_gpr_index(reg_a_name) == self._numbered_gpr_index(reg_b_name):\n            return True\n', _NUMREG_HELPER], "R4",
      "seeded change (round 4): None == None makes k1 dependent on rax"),
    M("numbered_index_helper_correct_is_fine", PX, [_NUMREG_OLD, "\n    def is_basic_gpr(self, register):"],
      ['        idx_a = self._numbered_gpr_index(reg_a_name)\n        if idx_a is not None and idx_a == self._numbered_gpr_index(reg_b_name):\n            return True\n', _NUMREG_HELPER], "SILENT",
      "the same test through a helper"),
]

MUTANTS["C09"] += [
    M("first_operand_labels_before_memory", PX, '        operand_first = pp.Group(\n            self.register ^ immediate ^ memory ^ identifier ^ numeric_identifier\n        )\n        operand_rest = pp.Group(self.register ^ immediate ^ memory)\n', '        operand = self.register ^ immediate ^ memory\n        operand_rest = pp.Group(operand)\n        operand_first = pp.Group(identifier ^ numeric_identifier ^ operand)\n', "R8", "round 4 seeded change: a bare decimal displacement ties with the numeric label, the first listed wins"),
    M("first_operand_memory_last", PX, "self.register ^ immediate ^ memory ^ identifier ^ numeric_identifier", "self.register ^ immediate ^ identifier ^ numeric_identifier ^ memory", "R8"),
    M("offset_decimal_before_hex", PX, "        offset = pp.Group(hex_number | decimal_number | identifier).setResultsName(", "        offset = pp.Group(decimal_number | hex_number | identifier).setResultsName(", "R8", "decimal commits on the 0 of 0x10"),
    M("offset_identifier_first", PX, "        offset = pp.Group(hex_number | decimal_number | identifier).setResultsName(", "        offset = pp.Group(identifier | hex_number | decimal_number).setResultsName(", "R8", "-8 is an identifier too"),
    M("bare_displacement_decimal_first", PX, '            | (hex_number | pp.Word(pp.nums)).setResultsName("offset")\n', '            | (pp.Word(pp.nums) | hex_number).setResultsName("offset")\n', "R8"),
    M("first_operand_untied_reorder_is_fine", PX, "self.register ^ immediate ^ memory ^ identifier ^ numeric_identifier", "immediate ^ self.register ^ memory ^ identifier ^ numeric_identifier", "SILENT", "register and immediate never tie with anything"),
    M("first_operand_shared_prefix_is_fine", PX, '        operand_first = pp.Group(\n            self.register ^ immediate ^ memory ^ identifier ^ numeric_identifier\n        )\n        operand_rest = pp.Group(self.register ^ immediate ^ memory)\n', '        operand = self.register ^ immediate ^ memory\n        operand_rest = pp.Group(operand)\n        operand_first = pp.Group(operand ^ identifier ^ numeric_identifier)\n', "SILENT", "the shared alternation keeps memory before the label forms"),
]

MUTANTS["C10"] += [
    M("a64_first_operand_identifier_first", PA, "register ^ (prefetch_op | immediate) ^ memory ^ arith_immediate ^ identifier", "identifier ^ register ^ (prefetch_op | immediate) ^ memory ^ arith_immediate", "R13", "x0 is a valid label name: the first listed wins the tie"),
    M("a64_rest_operand_identifier_first", PA, "(register ^ condition ^ immediate ^ memory ^ arith_immediate) | identifier", "identifier | (register ^ condition ^ immediate ^ memory ^ arith_immediate)", "R13"),
    M("a64_condition_after_immediate", PA, "(register ^ condition ^ immediate ^ memory ^ arith_immediate) | identifier", "(register ^ immediate ^ condition ^ memory ^ arith_immediate) | identifier", "R13", "eq / AL tie with an immediate label"),
    M("a64_offset_before_register_index", PA, 'pp.Optional(register_index ^ (immediate ^ arith_immediate).setResultsName("offset"))', 'pp.Optional((immediate ^ arith_immediate).setResultsName("offset") ^ register_index)', "R13"),
    M("a64_memory_moved_is_fine", PA, "register ^ (prefetch_op | immediate) ^ memory ^ arith_immediate ^ identifier", "register ^ memory ^ (prefetch_op | immediate) ^ arith_immediate ^ identifier", "SILENT", "memory ties with nothing"),
]

MUTANTS["C15"] += [
    M("revert_compose_with_alternatives_map", ARCH, '                        reg_port_uops = instruction_data_reg.port_pressure\n                        if isinstance(reg_port_uops, dict):\n                            # multiple port utilization options: use the first one, as\n                            # average_port_pressure() does for the port pressure above\n                            reg_port_uops = reg_port_uops[0]\n                        instruction_form.port_uops = list(chain(reg_port_uops, data_port_uops))\n', '                        instruction_form.port_uops = list(\n                            chain(instruction_data_reg.port_pressure, data_port_uops)\n                        )\n', "R3", "revert of fix d3fabf7"),
    M("compose_star_unpacks_map", ARCH, '                        reg_port_uops = instruction_data_reg.port_pressure\n                        if isinstance(reg_port_uops, dict):\n                            # multiple port utilization options: use the first one, as\n                            # average_port_pressure() does for the port pressure above\n                            reg_port_uops = reg_port_uops[0]\n                        instruction_form.port_uops = list(chain(reg_port_uops, data_port_uops))\n', '                        reg_port_uops = instruction_data_reg.port_pressure\n                        instruction_form.port_uops = [*reg_port_uops, *data_port_uops]\n', "R3", "star-unpacking a map yields its keys"),
    M("found_path_list_copy_of_map", ARCH, "        instruction_form.port_uops = instruction_data.port_pressure\n", "        instruction_form.port_uops = list(instruction_data.port_pressure)\n", "R3", "round 4 seeded change: list(<map>) yields the keys"),
    M("found_path_deepcopy_is_fine", ARCH, "        instruction_form.port_uops = instruction_data.port_pressure\n", "        instruction_form.port_uops = deepcopy(instruction_data.port_pressure)\n", "SILENT", "deepcopy keeps the container type"),
    M("compose_first_option_by_values_is_fine", ARCH, '                        reg_port_uops = instruction_data_reg.port_pressure\n                        if isinstance(reg_port_uops, dict):\n                            # multiple port utilization options: use the first one, as\n                            # average_port_pressure() does for the port pressure above\n                            reg_port_uops = reg_port_uops[0]\n                        instruction_form.port_uops = list(chain(reg_port_uops, data_port_uops))\n', '                        reg_port_uops = instruction_data_reg.port_pressure\n                        if isinstance(reg_port_uops, dict):\n                            reg_port_uops = list(reg_port_uops.values())[0]\n                        instruction_form.port_uops = [*reg_port_uops, *data_port_uops]\n', "SILENT", "the map is resolved before it is unpacked"),
]

MUTANTS["C01"] += [
    M("found_path_deepcopy_is_fine", ARCH, "        instruction_form.port_uops = instruction_data.port_pressure\n", "        instruction_form.port_uops = deepcopy(instruction_data.port_pressure)\n", "SILENT", "a type-preserving copy of the same container"),
]

MUTANTS["C08"] += [
    M("roles_regform_retry_with_original_operands", "osaca/semantics/isa_semantics.py", "                        instruction_form.mnemonic[:-1], operands_reg\n", "                        instruction_form.mnemonic[:-1], instruction_form.operands\n", "R6", "round 4 seeded change: the suffix-less retry of the register-form role look-up can never hit, shrl $3,(%rdi) loses its load part"),
]

MUTANTS["C02"] += [
    M("single_sweep", CLI, '        semantics.assign_optimal_throughput(kernel)\n        semantics.assign_optimal_throughput(kernel)\n', "        semantics.assign_optimal_throughput(kernel)\n", "P8", "round 4: one sweep leaves {0,1},{0,1},{2},{1,2} at 1.50 (optimum 1.333)"),
    M("two_sweeps_as_loop_is_fine", CLI, '        semantics.assign_optimal_throughput(kernel)\n        semantics.assign_optimal_throughput(kernel)\n', "        for _ in range(2):\n            semantics.assign_optimal_throughput(kernel)\n", "SILENT", "same two sweeps"),
    M("three_sweeps_is_fine", CLI, '        semantics.assign_optimal_throughput(kernel)\n        semantics.assign_optimal_throughput(kernel)\n', "        for _ in range(3):\n            semantics.assign_optimal_throughput(kernel)\n", "SILENT", "more sweeps are not fewer"),
]

MUTANTS["C06"] += [
    M("revert_written_operand_wins", ISA, '                    if o_reg_name not in reg_operand_names or any(\n                        o is d\n                        for d in chain(\n                            instruction_form.semantic_operands["destination"],\n                            instruction_form.semantic_operands["src_dst"],\n                        )\n                    ):\n                        reg_operand_names[o_reg_name] = operand_name\n', "                    reg_operand_names[o_reg_name] = operand_name\n", "R7", "revert of fix b0ca2cd"),
    M("written_operand_wins_membership_is_fine", ISA, "                        o is d\n                        for d in chain(", "                        o in (d,)\n                        for d in chain(", "SILENT", "membership instead of identity"),
]

MUTANTS["C15"] += [
    M("report_counts_latency_of_timed_forms_only", DBI, '    """Get sanity summary report."""\n    s = ""\n', '    """Get sanity summary report."""\n    s = ""\n    m_l = [form for form in m_l if form["throughput"] is not None]\n', "D2", "round 5: the list is filtered between collection and count"),
    M("report_drops_first_form", DBI, '    """Get sanity summary report."""\n    s = ""\n', '    """Get sanity summary report."""\n    s = ""\n    m_pp = m_pp[1:]\n', "D2"),
    M("report_sorts_lists_is_fine", DBI, '    """Get sanity summary report."""\n    s = ""\n', '    """Get sanity summary report."""\n    s = ""\n    m_tp = sorted(m_tp, key=_get_full_instruction_name)\n', "SILENT", "re-ordering does not change a count"),
]
MUTANTS["C05"] += [
    M("lcd_cell_by_truthiness", FE, "        if dep_lat is not None:\n", "        if dep_lat:\n", "R7", "round 5: a member with latency 0.0 is not marked"),
    M("lcd_cell_none_test_inverted_is_fine", FE, "        if dep_lat is not None:\n            lat_lcd = float(dep_lat)\n", "        if dep_lat is None:\n            pass\n        else:\n            lat_lcd = float(dep_lat)\n", "SILENT", "same presence test"),
]
MUTANTS["C13"] += [
    M("lcd_cell_by_truthiness", FE, "        if dep_lat is not None:\n", "        if dep_lat:\n", "R1", "round 5"),
]
MUTANTS["C09"] += [
    M("label_attempt_prefiltered_on_raw_first_char", PX, "        # 2. Parse label\n        if result is None:\n", "        # 2. Parse label\n        if result is None and line[:1] not in (\" \", \"\\t\"):\n", "R3", "round 5: indented labels never reach the label grammar"),
]

MUTANTS["C20"] += [
    M("rejected_tp_line_drops_new_form", DBI, '                    + " and was not added. Please inspect your benchmark."\n                )\n        elif "LT" in instruction:', '                    + " and was not added. Please inspect your benchmark."\n                )\n                continue\n        elif "LT" in instruction:', "R5", "round 5: a form whose only line is rejected never reaches the dict"),
]

MUTANTS["C16"] += [
    M("flag_subset_test_is_fine", FE, '[instr.flags for instr in kernel if INSTR_FLAGS.TP_UNKWN in instr.flags]', "[instr.flags for instr in kernel if {INSTR_FLAGS.TP_UNKWN}.issubset(instr.flags)]", "SILENT", "issubset does not depend on set order"),
]
MUTANTS["C13"] += [
    M("count_by_subset_of_one_flag_is_fine", FE, '[instr.flags for instr in kernel if INSTR_FLAGS.TP_UNKWN in instr.flags]', "[instr.flags for instr in kernel if {INSTR_FLAGS.TP_UNKWN}.issubset(instr.flags)]", "SILENT", "same predicate"),
    M("count_needs_both_flags", FE, '[instr.flags for instr in kernel if INSTR_FLAGS.TP_UNKWN in instr.flags]', "[instr.flags for instr in kernel if {INSTR_FLAGS.TP_UNKWN, INSTR_FLAGS.LT_UNKWN}.issubset(instr.flags)]", "R3", "round 5: lines with TP_UNKWN only are marked X but not counted"),
    M("dict_warning_needs_latency_flag", FE, "        if INSTR_FLAGS.TP_UNKWN in [flag for instr in kernel for flag in instr.flags]:\n            warnings.append(\"UnknownInstrWarning\")", "        if any(INSTR_FLAGS.TP_UNKWN in instr.flags and INSTR_FLAGS.LT_UNKWN in instr.flags for instr in kernel):\n            warnings.append(\"UnknownInstrWarning\")", "R3"),
]

MUTANTS["C02"] += [
    M("totals_round_each_line_first", ARCH, "        tp_sum = [round(sum(col), 2) for col in zip(*port_pressures)]", "        tp_sum = [round(sum(round(v, 2) for v in col), 2) for col in zip(*port_pressures)]", "P2", "round 5: per-line rounding losses accumulate, the bottleneck undercuts the optimum"),
]

MUTANTS["C03"] += [
    M("address_register_helper_needs_base", KDG, ['                if src.base is not None:\n                    is_read = self.parser.is_reg_dependend_of(register, src.base) or is_read\n                if src.index is not None and isinstance(src.index, RegisterOperand):\n                    is_read = self.parser.is_reg_dependend_of(register, src.index) or is_read\n', '                if dst.base is not None:\n                    is_read = self.parser.is_reg_dependend_of(register, dst.base) or is_read\n                if dst.index is not None:\n                    is_read = self.parser.is_reg_dependend_of(register, dst.index) or is_read\n        return is_read\n'], ['                is_read = self._is_address_register(register, src) or is_read\n', '                is_read = self._is_address_register(register, dst) or is_read\n        return is_read\n\n    def _is_address_register(self, register, mem):\n        """Check if memory operand ``mem`` uses ``register`` for its address computation"""\n        if mem.base is None:\n            return False\n        if self.parser.is_reg_dependend_of(register, mem.base):\n            return True\n        return isinstance(mem.index, RegisterOperand) and self.parser.is_reg_dependend_of(\n            register, mem.index\n        )\n'], "R4", "round 5: the index of a base-less operand is no longer read"),
    M("address_register_helper_correct_is_fine", KDG, ['                if src.base is not None:\n                    is_read = self.parser.is_reg_dependend_of(register, src.base) or is_read\n                if src.index is not None and isinstance(src.index, RegisterOperand):\n                    is_read = self.parser.is_reg_dependend_of(register, src.index) or is_read\n', '                if dst.base is not None:\n                    is_read = self.parser.is_reg_dependend_of(register, dst.base) or is_read\n                if dst.index is not None:\n                    is_read = self.parser.is_reg_dependend_of(register, dst.index) or is_read\n        return is_read\n'], ['                is_read = self._is_address_register(register, src) or is_read\n', '                is_read = self._is_address_register(register, dst) or is_read\n        return is_read\n\n    def _is_address_register(self, register, mem):\n        """Check if memory operand ``mem`` uses ``register`` for its address computation"""\n        if mem.base is not None and self.parser.is_reg_dependend_of(register, mem.base):\n            return True\n        return isinstance(mem.index, RegisterOperand) and self.parser.is_reg_dependend_of(\n            register, mem.index\n        )\n'], "SILENT", "base and index still consulted independently"),
]

MUTANTS["C04"] += [
    M("critical_path_memoised", KDG, ['        """Find and return critical path after the creation of a directed graph."""\n', '            return [x for x in self.kernel if x.line_number in longest_path[:-1]]\n'], ['        """Find and return critical path after the creation of a directed graph."""\n        if getattr(self, "_critical_path", None) is not None:\n            return self._critical_path\n', "            self._critical_path = [x for x in self.kernel if x.line_number in longest_path[:-1]]\n            return self._critical_path\n"], "R3", "round 5: latency_cp lives on shared instruction forms, a remembered path is returned without re-assigning it"),
    M("critical_path_kept_in_attribute_is_fine", KDG, '            return [x for x in self.kernel if x.line_number in longest_path[:-1]]\n', "            self._critical_path = [x for x in self.kernel if x.line_number in longest_path[:-1]]\n            return self._critical_path\n", "SILENT", "stored and returned, still recomputed on every call"),
]

MUTANTS["C11"] += [
    M("lines_kernel_follows_option_order", CLI, '        kernel = [line for line in parsed_code if line.line_number in line_range]\n', "        forms_by_number = {form.line_number: form for form in parsed_code}\n        kernel = [forms_by_number[n] for n in line_range if n in forms_by_number]\n", "R4", "round 5: repeats and order of the --lines string reach the kernel"),
    M("lines_membership_in_a_set_is_fine", CLI, '        kernel = [line for line in parsed_code if line.line_number in line_range]\n', "        wanted = set(line_range)\n        kernel = [line for line in parsed_code if line.line_number in wanted]\n", "SILENT", "same lines, file order"),
    M("lines_lookup_sorted_unique_is_fine", CLI, '        kernel = [line for line in parsed_code if line.line_number in line_range]\n', "        forms_by_number = {form.line_number: form for form in parsed_code}\n        kernel = [forms_by_number[n] for n in sorted(set(line_range)) if n in forms_by_number]\n", "SILENT", "sorted unique numbers = file order"),
]

MUTANTS["C05"] += [
    M("offset_assumes_contiguous_numbers", KDG, '        offset = max(1000, max([i.line_number for i in kernel]) + 1)\n', "        offset = max(1000, kernel[0].line_number + len(kernel))\n", "R2", "round 5 (C14 seed): blank lines leave gaps in the numbering"),
    M("offset_from_last_line_is_fine", KDG, '        offset = max(1000, max([i.line_number for i in kernel]) + 1)\n', "        offset = max(1000, kernel[-1].line_number + 1)\n", "SILENT", "the kernel is in file order, its last line has the largest number"),
]
