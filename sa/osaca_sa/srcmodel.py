"""E1: source model. Parses every *.py under <repo>/osaca into modules / classes / functions.

Functions are addressed by a file-independent qualified name:
    "Class.method"            for methods            (e.g. "KernelDG.create_DG")
    "<module stem>.function"  for module functions   (e.g. "osaca.inspect", "marker_utils.match_bytes")
A missing anchor raises AnchorMissing, which the CLI turns into ANALYSIS-ERROR / exit 2.
"""
import ast
import hashlib
import os
from pathlib import Path


class AnalysisError(Exception):
    """The analysis cannot give a verdict (anchor vanished, idiom not understood). exit 2."""


class AnchorMissing(AnalysisError):
    pass


def repo_root():
    return Path(os.environ.get("OSACA_SA_REPO", "/repo"))


class FuncInfo:
    def __init__(self, qname, node, module, cls=None):
        self.qname = qname
        self.node = node
        self.module = module
        self.cls = cls

    @property
    def file(self):
        return self.module.rel

    @property
    def name(self):
        return self.node.name

    def where(self, node=None):
        n = node if node is not None else self.node
        return "%s:%d" % (self.module.rel, getattr(n, "lineno", self.node.lineno))

    def params(self):
        a = self.node.args
        return [x.arg for x in a.posonlyargs + a.args + a.kwonlyargs]

    def __repr__(self):
        return "<func %s @%s>" % (self.qname, self.where())


class ClassInfo:
    def __init__(self, name, node, module):
        self.name = name
        self.node = node
        self.module = module
        self.bases = [ast.unparse(b) for b in node.bases]
        self.methods = {}
        self.class_attrs = {}  # name -> value node (class-level simple assignments)

    def where(self):
        return "%s:%d" % (self.module.rel, self.node.lineno)


from .canon import canon_text, canonicalise, is_literal as _is_literal  # noqa: E402,F401


def canon_eq(a, b, op="=="):
    """Canonical text of `a <op> b` for two expression texts."""
    return canon_text("(%s) %s (%s)" % (a, op, b))


class Module:
    def __init__(self, rel, path, text):
        self.rel = rel
        self.path = path
        self.text = text
        self.lines = text.split("\n")
        tree = ast.parse(text, filename=str(path))
        self.respelled = 0
        if not os.environ.get("OSACA_SA_NO_IMPORTS"):
            from .imports import respell
            self.respelled = respell(rel, tree)
            if self.respelled:
                ast.fix_missing_locations(tree)
        self.tree = canonicalise(tree)
        self.stem = Path(rel).stem
        self.link_parents()
        self.globals = {}  # module-level simple assignments: name -> value node

    def link_parents(self):
        for parent in ast.walk(self.tree):
            for child in ast.iter_child_nodes(parent):
                child._parent = parent
        self.tree._parent = None

    def excerpt(self, node, ctx=0):
        lo = max(1, node.lineno - ctx)
        hi = min(len(self.lines), getattr(node, "end_lineno", node.lineno) + ctx)
        return "\n".join("%5d  %s" % (i, self.lines[i - 1]) for i in range(lo, hi + 1))


class Repo:
    """All Python sources of the package, parsed."""

    PKG = "osaca"

    def __init__(self, root=None):
        self.root = Path(root) if root else repo_root()
        self.modules = {}
        self.funcs = {}
        self.classes = {}
        self.digest = hashlib.sha256()
        pkg = self.root / self.PKG
        if not pkg.is_dir():
            raise AnchorMissing("package directory %s missing" % pkg)
        for path in sorted(pkg.rglob("*.py")):
            rel = str(path.relative_to(self.root))
            text = path.read_text(encoding="utf-8")
            self.digest.update(rel.encode() + b"\0" + text.encode() + b"\0")
            try:
                mod = Module(rel, path, text)
            except SyntaxError as e:
                raise AnalysisError("cannot parse %s: %s" % (rel, e))
            self.modules[rel] = mod
            self._index(mod)
        self.inlined = []
        self.renamed_back = []
        if not os.environ.get("OSACA_SA_NO_SHAPES"):
            from .shapes import undo_renames

            self.renamed_back = undo_renames(self)
        if not os.environ.get("OSACA_SA_NO_INLINE"):
            from .inline import Inliner, load_known

            kf, kc, kl = load_known()
            inl = Inliner(self, kf, kc, kl).run()
            self.propagated_temps = sorted(set(inl.temps))
            self.inlined = sorted(set(inl.expanded))
            self.inlined_constants = sorted(inl.consts)
            self.not_inlinable = dict(inl.rejected)
            if inl.expanded or inl.consts or inl.temps:
                for mod in self.modules.values():
                    canonicalise(mod.tree)
                    ast.fix_missing_locations(mod.tree)
                    # (a second pass: forms that only become canonical once the boolean contexts of the expanded expressions
                    # are marked - `X if c else False` in a test - are reached reliably)
                    canonicalise(mod.tree)
                    ast.fix_missing_locations(mod.tree)
                    mod.link_parents()
                if not os.environ.get("OSACA_SA_NO_SHAPES"):
                    # once more after the expansion: a recorded local may have become recognisable (E14b), or the constant
                    # it named is now written in place
                    again = undo_renames(self)
                    if again:
                        self.renamed_back = list(self.renamed_back) + again
                        for mod in self.modules.values():
                            ast.fix_missing_locations(mod.tree)
                            mod.link_parents()

    def _index(self, mod):
        for node in mod.tree.body:
            if isinstance(node, (ast.FunctionDef, ast.AsyncFunctionDef)):
                q = "%s.%s" % (mod.stem, node.name)
                self.funcs.setdefault(q, FuncInfo(q, node, mod))
            elif isinstance(node, ast.ClassDef):
                ci = ClassInfo(node.name, node, mod)
                self.classes.setdefault(node.name, ci)
                for sub in node.body:
                    if isinstance(sub, (ast.FunctionDef, ast.AsyncFunctionDef)):
                        q = "%s.%s" % (node.name, sub.name)
                        fi = FuncInfo(q, sub, mod, ci)
                        ci.methods[sub.name] = fi
                        self.funcs.setdefault(q, fi)
                    elif isinstance(sub, ast.Assign) and len(sub.targets) == 1:
                        if isinstance(sub.targets[0], ast.Name):
                            ci.class_attrs[sub.targets[0].id] = sub.value
                    elif isinstance(sub, ast.AnnAssign) and isinstance(sub.target, ast.Name):
                        if sub.value is not None:
                            ci.class_attrs[sub.target.id] = sub.value
            elif isinstance(node, ast.Assign) and len(node.targets) == 1:
                if isinstance(node.targets[0], ast.Name):
                    mod.globals[node.targets[0].id] = node.value

    # ---- anchors ---------------------------------------------------------------------------
    def func(self, qname):
        f = self.funcs.get(qname)
        if f is None:
            raise AnchorMissing("anchor function %r not found in %s/osaca" % (qname, self.root))
        return f

    def has_func(self, qname):
        return qname in self.funcs

    def cls(self, name):
        c = self.classes.get(name)
        if c is None:
            raise AnchorMissing("anchor class %r not found" % name)
        return c

    def module(self, rel):
        m = self.modules.get(rel)
        if m is None:
            raise AnchorMissing("anchor module %r not found" % rel)
        return m

    def module_by_stem(self, stem):
        for m in self.modules.values():
            if m.stem == stem:
                return m
        raise AnchorMissing("anchor module %r not found" % stem)

    def mro(self, clsname):
        """Linearised base classes known to the package (single inheritance in this repo)."""
        out = []
        seen = set()
        work = [clsname]
        while work:
            c = work.pop(0)
            if c in seen or c not in self.classes:
                continue
            seen.add(c)
            out.append(c)
            for b in self.classes[c].bases:
                work.append(b.split(".")[-1])
        return out

    def resolve_method(self, clsname, meth):
        for c in self.mro(clsname):
            f = self.classes[c].methods.get(meth)
            if f is not None:
                return f
        return None

    def all_funcs(self):
        return list(self.funcs.values())

    def read_text(self, rel):
        p = self.root / rel
        if not p.exists():
            raise AnchorMissing("file %s missing" % rel)
        return p.read_text(encoding="utf-8")


def parent(node):
    return getattr(node, "_parent", None)


def enclosing(node, types):
    p = parent(node)
    while p is not None and not isinstance(p, types):
        p = parent(p)
    return p


def enclosing_stmt(node):
    n = node
    while n is not None and not isinstance(n, ast.stmt):
        n = parent(n)
    return n
