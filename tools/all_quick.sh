#!/bin/sh
# usage: tools/all_quick.sh [--tier thorough] [--repo PATH]  - every claimed check in parallel, no evidence; prints non-zero exits
mkdir -p /tmp/rob
for p in C01 C02 C03 C04 C05 C06 C07 C08 C09 C10 C11 C12 C13 C15 C16 C17 C18 C19 C20; do
  ( /verif/check $p --no-evidence "$@" > /tmp/rob/$p.q.log 2>&1; rc=$?; [ $rc -ne 0 ] && { echo "== $p exit=$rc"; grep -A3 "^VIOLATION\|^ANALYSIS" /tmp/rob/$p.q.log | cut -c1-400 | head -12; } ) &
done 2>/dev/null
wait
echo "all_quick done"
