#!/bin/sh
# usage: tools/q_eval.sh <Qxx> [checks...]  - run checks against /tmp/rob/q/<Qxx>; prints non-zero exits
S=$1; shift
L="$@"; [ -z "$L" ] && L="C01 C02 C03 C04 C05 C06 C07 C08 C09 C10 C11 C12 C13 C15 C16 C17 C18 C19 C20"
for p in $L; do
  ( out=$(/verif/check $p --no-evidence --repo /tmp/rob/q/$S 2>&1); rc=$?
    if [ $rc -ne 0 ]; then echo "== $S check $p exit=$rc"; echo "$out" | grep -A3 "^VIOLATION\|^ANALYSIS" | grep -v "^--" | cut -c1-420 | head -9; fi ) &
done
wait
