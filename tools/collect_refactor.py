#!/venv/bin/python
"""Copy a confirmed refactoring from its scratch worktree into /verif/refactors/<name>/ .
usage: tools/collect_refactor.py <worktree id, e.g. Q05> [--name r6-C05]"""
import argparse, json, shutil, sys
from pathlib import Path
VERIF = Path(__file__).resolve().parents[1]
ap = argparse.ArgumentParser(); ap.add_argument("wt"); ap.add_argument("--name", default=None)
a = ap.parse_args()
src = Path("/tmp/wt") / a.wt / "_refactor"
conf = json.loads((src / "confirm.json").read_text())
if not (conf["digest_with_change"] == conf["digest_without_change"] and len(conf["digest_with_change"]) >= 32
        and conf["stable_tests_passing_with_change"] == 42):
    sys.exit("not confirmed: %s" % conf)
meta = json.loads((src / "meta.json").read_text())
name = a.name or "r6-C" + a.wt[1:]
dst = VERIF / "refactors" / name
dst.mkdir(parents=True, exist_ok=True)
shutil.copy(src / "patch.diff", dst / "patch.diff")
shutil.copy(src / "demo.py", dst / "demo.py")
meta["origin"] = "independent sub-agent given only the property text and a scratch worktree of /repo (%s)" % ("round 7: many small edits - at least twenty-five - across every anchored file" if (a.name or "").startswith("r7") else "round 6: focus list of functions, at least six rewrites")
meta["confirmed_in_scratch_worktree"] = {"ran": "tools/confirm_refactor.sh %s" % a.wt, "digest_with_change": conf["digest_with_change"],
                                         "digest_without_change": conf["digest_without_change"],
                                         "stable_tests_passing_with_change": "%d/42" % conf["stable_tests_passing_with_change"]}
(dst / "meta.json").write_text(json.dumps(meta, indent=1) + "\n")
print(name, "stored")
