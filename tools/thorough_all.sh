#!/bin/bash
# usage: thorough_all.sh [--evidence]
cd /verif
EV="--no-evidence"; [ "$1" = "--evidence" ] && EV=""
for p in C01 C02 C03 C04 C05 C06 C07 C08 C09 C10 C11 C12 C13 C15 C16 C17 C18 C19 C20; do (./check $p --tier thorough $EV > /tmp/rob/$p.t.log 2>&1; rc=$?; echo "$p $rc $(grep -c '^VIOLATION' /tmp/rob/$p.t.log) $(grep -o '[0-9]* mutant(s): [0-9]* caught, [0-9]* stale, [0-9]* missed' /tmp/rob/$p.t.log) | $(grep -o '[0-9]*/[0-9]* seeded[^;]*' /tmp/rob/$p.t.log | cut -c1-60) $(grep -o '[0-9]* refactoring.*' /tmp/rob/$p.t.log | cut -c1-80)") & done 2>/dev/null; wait 2>/dev/null
echo thorough_all done
