#!/venv/bin/python
"""Regenerate spec/known_symbols.json: the NAMES of the functions and upper-case literal constants of the package the rules
were written against (no code, no positions). Symbols that are not in this list are treated as results of an "extract
method" / "introduce constant" refactoring and are expanded in place before the rules run (osaca_sa/inline.py).
Run deliberately (after reviewing the rules against a new decomposition), never as part of a check."""
import ast
import json
import os
import sys
from pathlib import Path

VERIF = Path(__file__).resolve().parents[1]
sys.path.insert(0, str(VERIF / "sa"))
os.environ["OSACA_SA_NO_INLINE"] = "1"
from osaca_sa.srcmodel import Repo  # noqa: E402

repo = Repo("/repo")
funcs = sorted(q for q, f in repo.funcs.items() if not f.file.startswith("osaca/data/"))
consts = []
for c in repo.classes.values():
    for name in c.class_attrs:
        consts.append("%s.%s" % (c.name, name))
for m in repo.modules.values():
    if m.rel.startswith("osaca/data/"):
        continue
    for name in m.globals:
        consts.append("%s.%s" % (m.stem, name))
locs = {}
for q, f in repo.funcs.items():
    if f.file.startswith("osaca/data/"):
        continue
    names = {n.id for n in ast.walk(f.node) if isinstance(n, ast.Name) and isinstance(n.ctx, (ast.Store, ast.Del))}
    names |= {a.arg for a in ast.walk(f.node) if isinstance(a, ast.arg)}
    locs[q] = sorted(names)
out = {"_comment": "names only; see tools/gen_known_symbols.py and DESIGN.md 3.1 (E12)", "functions": funcs, "constants": sorted(set(consts)),
       "locals": locs}
(VERIF / "spec" / "known_symbols.json").write_text(json.dumps(out, indent=1) + "\n")
print(len(funcs), "functions,", len(out["constants"]), "constants")
