#!/bin/sh
# usage: tools/w_eval.sh <seed name, e.g. s7-C01> [checks...] - scratch copy /tmp/rob/w/<seed> of /repo with the "correct twin"
# of a seeded change applied (from /tmp/wt/W<seed>/_twin/patch.diff or /verif/twins/<seed>/patch.diff); prints non-zero exits
S=$1; shift
P=/tmp/wt/W$S/_twin/patch.diff; [ -f $P ] || P=/verif/twins/t-$S/patch.diff
[ -f $P ] || { echo "no twin patch for $S"; exit 1; }
D=/tmp/rob/w/$S; rm -rf $D; mkdir -p $D
cp -r /repo/osaca $D/osaca; cp /repo/README.rst $D/; find $D -name "*.pickle" -delete; find $D -name __pycache__ -type d -exec rm -rf {} + 2>/dev/null
(cd $D && patch -p1 -s < $P) || echo "PATCH FAILED $S"
L="$@"; [ -z "$L" ] && L="C01 C02 C03 C04 C05 C06 C07 C08 C09 C10 C11 C12 C13 C15 C16 C17 C18 C19 C20"
for p in $L; do
  ( out=$(/verif/check $p --no-evidence --repo $D 2>&1); rc=$?
    if [ $rc -ne 0 ]; then echo "== twin $S check $p exit=$rc"; echo "$out" | grep -A3 "^VIOLATION\|^ANALYSIS" | grep -v "^--" | cut -c1-420 | head -9; fi ) &
done
wait
