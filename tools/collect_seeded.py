#!/venv/bin/python
"""Copy a confirmed seeded change from its scratch worktree into /verif/seeded/<name>/ and record
which checks catch it (by applying it to /repo, running every quick check - or thorough for the listed
properties - and undoing it straight afterwards).

usage: tools/collect_seeded.py <worktree id, e.g. C05> [--name s1-C05] [--thorough C09,C10]
"""
import argparse
import json
import shutil
import subprocess
import sys
from pathlib import Path

VERIF = Path(__file__).resolve().parents[1]


def main():
    ap = argparse.ArgumentParser()
    ap.add_argument("wt")
    ap.add_argument("--name", default=None)
    ap.add_argument("--thorough", default="")
    a = ap.parse_args()
    src = Path("/tmp/wt") / a.wt / "_seeded"
    conf = json.loads((src / "confirm.json").read_text())
    if not (conf["demo_exit_with_change"] != 0 and conf["demo_exit_without_change"] == 0
            and conf["stable_tests_passing_with_change"] == 42):
        sys.exit("not confirmed: %s" % conf)
    meta = json.loads((src / "meta.json").read_text())
    name = a.name or a.wt
    dst = VERIF / "seeded" / name
    dst.mkdir(parents=True, exist_ok=True)
    shutil.copy(src / "patch.diff", dst / "patch.diff")
    shutil.copy(src / "demo.py", dst / "demo.py")
    out = subprocess.run([sys.executable, str(VERIF / "tools" / "seeded_eval.py"), str(dst)], capture_output=True, text=True)
    caught, details = [], []
    for line in out.stdout.splitlines():
        if line.startswith("SUMMARY"):
            pass
        elif line.startswith("C") and "exit=1" in line:
            caught.append(line.split()[0])
        elif line.startswith("    rule"):
            details.append(line.strip()[:300])
    errors = [l.split()[0] for l in out.stdout.splitlines() if l.startswith("C") and "exit=2" in l]
    for p in [x for x in a.thorough.split(",") if x]:
        o2 = subprocess.run([sys.executable, str(VERIF / "tools" / "seeded_eval.py"), str(dst), "--tier", "thorough", "--props", p],
                            capture_output=True, text=True)
        for line in o2.stdout.splitlines():
            if line.startswith("    rule") and line.strip()[:300] not in details:
                details.append("(thorough) " + line.strip()[:290])
    prop = meta.get("property", a.wt)
    meta_out = {
        "property": prop,
        "origin": "independent sub-agent given only the property text and a scratch worktree of /repo",
        "summary": meta.get("summary"),
        "needs_to_manifest": meta.get("needs_to_manifest"),
        "files_changed": meta.get("files_changed"),
        "confirmed_in_scratch_worktree": {
            "worktree": "/tmp/wt/%s (removed afterwards)" % a.wt,
            "ran": "tools/confirm_seeded.sh %s: demo.py with the change, the full pytest command of BASELINE.json with the change, "
                   "demo.py after `git checkout -- osaca`" % a.wt,
            "demo_exit_with_change": conf["demo_exit_with_change"],
            "demo_exit_without_change": conf["demo_exit_without_change"],
            "stable_tests_passing_with_change": "%d/42" % conf["stable_tests_passing_with_change"],
        },
        "checks_run_against_it": "git -C /repo apply patch.diff; ./check <every claimed id> --no-evidence; git -C /repo checkout -- .",
        "caught_by": caught,
        "analysis_errors": errors,
        "findings": details[:8],
    }
    (dst / "meta.json").write_text(json.dumps(meta_out, indent=1) + "\n")
    print(name, "caught by", caught, "errors", errors)


if __name__ == "__main__":
    main()
