#!/venv/bin/python
"""Regenerates spec/grammar_order.json from /repo (review every entry by hand afterwards; `in_property` is kept from the old file)."""
import json, sys
sys.path.insert(0, '/verif/sa')
from osaca_sa.srcmodel import Repo
from osaca_sa.ppgrammar import Grammar
from osaca_sa import automata
P = '/verif/spec/grammar_order.json'
try:
    old = json.load(open(P))
except Exception:
    old = {}
r = Repo('/repo')
out = {}
for cls in ('ParserX86ATT', 'ParserAArch64'):
    rows = []
    oldrows = {(e['kind'], e['first'], e['second']): e for e in old.get(cls, [])}
    for (kind, a, b), (active, w, var) in sorted(automata.order_relations(Grammar(r, cls)).items()):
        o = oldrows.get((kind, a, b), {})
        rows.append({"kind": kind, "first": a, "second": b, "witness": w, "variable": var,
                     "in_property": o.get("in_property", False), "reason": o.get("reason", "")})
    out[cls] = rows
json.dump(out, open(P, 'w'), indent=1)
print({k: len(v) for k, v in out.items()})
