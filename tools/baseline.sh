#!/bin/sh
# Runs the repository's pinned test command (guard OFF: the static checks need no hooks) and
# compares the passing set with BASELINE.json's stable_pass list. exit 0 iff all of them pass.
out="$(mktemp -d)"
cd /repo && env -u OSACA_VERIF /venv/bin/python -m pytest -ra -q -p no:cacheprovider --timeout=900 \
    --continue-on-collection-errors --junitxml="$out/junit.xml" >"$out/log" 2>&1
/venv/bin/python - "$out/junit.xml" <<'PY'
import json, sys, xml.etree.ElementTree as ET
ok = set()
for tc in ET.parse(sys.argv[1]).iter("testcase"):
    if not [c for c in tc if c.tag in ("failure", "error", "skipped")]:
        ok.add(tc.get("classname") + "::" + tc.get("name"))
base = set(json.load(open("/root/.vp/BASELINE.json"))["stable_pass"])
missing = sorted(base - ok)
print("baseline: %d/%d stable tests pass" % (len(base) - len(missing), len(base)))
for m in missing:
    print("  NOT PASSING:", m)
sys.exit(1 if missing else 0)
PY
rc=$?
rm -rf "$out"
cd /repo && git status --short | grep -q . && git status --short
exit $rc
