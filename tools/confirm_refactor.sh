#!/bin/sh
# Confirm a refactoring in its scratch worktree /tmp/wt/<ID> (never in /repo): digest of _refactor/demo.py with and without
# the change, and the stable tests with the change. Writes /tmp/wt/<ID>/_refactor/confirm.json
ID="$1"
WT="/tmp/wt/$ID"
cd "$WT" || exit 2
export HOME="$WT/_home"
mkdir -p "$HOME"
git diff -- osaca > _refactor/applied.diff
if [ ! -s _refactor/applied.diff ]; then git apply _refactor/patch.diff || exit 2; git diff -- osaca > _refactor/applied.diff; fi
rm -f tests/test_files/*.copy.s
D_WITH=$(timeout 2400 /venv/bin/python _refactor/demo.py 2>/dev/null | tail -1)
/venv/bin/python -m pytest -q -p no:cacheprovider --timeout=900 --continue-on-collection-errors --junitxml=_refactor/junit.xml > _refactor/pytest.log 2>&1
STABLE=$(/venv/bin/python - <<'PY'
import json, xml.etree.ElementTree as ET
ok = set()
for tc in ET.parse("_refactor/junit.xml").iter("testcase"):
    if not [c for c in tc if c.tag in ("failure", "error", "skipped")]:
        ok.add(tc.get("classname") + "::" + tc.get("name"))
base = set(json.load(open("/root/.vp/BASELINE.json"))["stable_pass"])
print(len(base & ok))
PY
)
rm -f tests/test_files/*.copy.s
git checkout -- osaca
D_WITHOUT=$(timeout 2400 /venv/bin/python _refactor/demo.py 2>/dev/null | tail -1)
git apply _refactor/applied.diff
printf '{"id": "%s", "digest_with_change": "%s", "digest_without_change": "%s", "stable_tests_passing_with_change": %s}\n' "$ID" "$D_WITH" "$D_WITHOUT" "$STABLE" > _refactor/confirm.json
cat _refactor/confirm.json
