#!/venv/bin/python
"""usage: tools/unknowns.py <Cxx> <repo copy>  - every not-understood construct of a check on a scratch copy"""
import sys
sys.path.insert(0, '/verif/sa')
from osaca_sa import cli
from osaca_sa.srcmodel import AnalysisError
prop, repo = sys.argv[1], sys.argv[2]
try:
    ctx, mod = cli.analyse(prop, "quick", repo)
except AnalysisError as e:
    print("BROKEN:", e)
    sys.exit(2)
for u in getattr(ctx, "unknowns", []):
    print("UNKNOWN:", u[:600])
for f in ctx.findings:
    print("FINDING:", f.rule, f.construct, "::", f.detail[:300])
