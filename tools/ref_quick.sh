#!/bin/sh
# usage: tools/ref_quick.sh <Cxx> [Rxx ...]  - run one check against the scratch copies of the refactorings (/tmp/rob/ref/Rxx)
P=$1; shift
L="$@"; [ -z "$L" ] && L=$(ls /tmp/rob/ref)
for r in $L; do
  out=$(/verif/check $P --no-evidence --repo /tmp/rob/ref/$r 2>&1); rc=$?
  if [ $rc -ne 0 ]; then echo "== $r exit=$rc"; echo "$out" | grep -A3 "^VIOLATION\|^ANALYSIS" | grep -v "^VIOLATION\|^--" | cut -c1-420; fi
done
