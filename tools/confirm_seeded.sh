#!/bin/sh
# Confirm a seeded change in its scratch worktree /tmp/wt/<ID> (never in /repo):
#   1. the patch is what is applied there, 2. the demonstration fails with it, 3. the 42 stable tests still pass with it,
#   4. the demonstration passes without it.  Writes /tmp/wt/<ID>/_seeded/confirm.json
ID="$1"
WT="/tmp/wt/$ID"
cd "$WT" || exit 2
export HOME="$WT/_home"
mkdir -p "$HOME"
git diff -- osaca > _seeded/applied.diff
if [ ! -s _seeded/applied.diff ]; then git apply _seeded/patch.diff || exit 2; git diff -- osaca > _seeded/applied.diff; fi
timeout 900 /venv/bin/python _seeded/demo.py > _seeded/demo_with.log 2>&1; RC_WITH=$?
/venv/bin/python -m pytest -q -p no:cacheprovider --timeout=900 --continue-on-collection-errors --junitxml=_seeded/junit.xml > _seeded/pytest.log 2>&1
STABLE=$(/venv/bin/python - <<'PY'
import json, xml.etree.ElementTree as ET
ok = set()
for tc in ET.parse("_seeded/junit.xml").iter("testcase"):
    if not [c for c in tc if c.tag in ("failure", "error", "skipped")]:
        ok.add(tc.get("classname") + "::" + tc.get("name"))
base = set(json.load(open("/root/.vp/BASELINE.json"))["stable_pass"])
print(len(base & ok))
PY
)
rm -f tests/test_files/*.copy.s
git checkout -- osaca
timeout 900 /venv/bin/python _seeded/demo.py > _seeded/demo_without.log 2>&1; RC_WITHOUT=$?
git apply _seeded/applied.diff
printf '{"id": "%s", "demo_exit_with_change": %s, "demo_exit_without_change": %s, "stable_tests_passing_with_change": %s}\n' "$ID" "$RC_WITH" "$RC_WITHOUT" "$STABLE" > _seeded/confirm.json
cat _seeded/confirm.json
