#!/bin/sh
# usage: tools/s4_copy.sh <Cxx> [patch]  - scratch copy /tmp/rob/s4/<Cxx> of /repo's package with a seeded patch applied
P=$1; PATCH=${2:-/tmp/wt/$P/_seeded/patch.diff}
D=/tmp/rob/s4/$P
rm -rf $D; mkdir -p $D
cp -r /repo/osaca $D/osaca; cp /repo/README.rst /repo/setup.py $D/ 2>/dev/null; [ -d /repo/docs ] && cp -r /repo/docs $D/docs
find $D -name "*.pickle" -delete; find $D -name __pycache__ -type d -exec rm -rf {} + 2>/dev/null
(cd $D && patch -p1 -s < $PATCH) || echo "PATCH FAILED"
echo $D
