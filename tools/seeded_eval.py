#!/venv/bin/python
"""Apply a seeded change to /repo, run the checks against it, undo it straight afterwards.

usage: tools/seeded_eval.py <dir with patch.diff> [--tier quick|thorough] [--props C05,C16]
Prints, per property, exit code and the violated rules. Never leaves /repo modified.
"""
import argparse
import json
import subprocess
import sys
from concurrent.futures import ThreadPoolExecutor
from pathlib import Path

VERIF = Path(__file__).resolve().parents[1]


def run_check(p, tier):
    r = subprocess.run([str(VERIF / "check"), p, "--tier", tier, "--no-evidence"], capture_output=True, text=True, cwd=VERIF)
    rules = []
    lines = r.stdout.splitlines()
    for i, l in enumerate(lines):
        if l.startswith("VIOLATION"):
            rule = lines[i + 1].strip() if i + 1 < len(lines) else ""
            detail = lines[i + 3].strip()[:160] if i + 3 < len(lines) else ""
            rules.append("%s :: %s" % (rule, detail))
        if l.startswith("ANALYSIS-ERROR"):
            rules.append(l[:300])
    return p, r.returncode, rules


def main():
    ap = argparse.ArgumentParser()
    ap.add_argument("dir")
    ap.add_argument("--tier", default="quick")
    ap.add_argument("--props", default=None)
    a = ap.parse_args()
    patch = Path(a.dir) / "patch.diff"
    m = json.loads((VERIF / "MANIFEST.json").read_text())
    props = a.props.split(",") if a.props else [c["property_id"] for c in m["checks"]]
    st = subprocess.run(["git", "-C", "/repo", "status", "--porcelain", "--untracked-files=no"], capture_output=True, text=True)
    if st.stdout.strip():
        sys.exit("refusing: /repo has uncommitted changes to tracked files:\n" + st.stdout)
    ap_ = subprocess.run(["git", "-C", "/repo", "apply", str(patch.resolve())], capture_output=True, text=True)
    if ap_.returncode != 0:
        sys.exit("patch does not apply: " + ap_.stderr)
    try:
        with ThreadPoolExecutor(max_workers=8) as ex:
            res = list(ex.map(lambda p: run_check(p, a.tier), props))
    finally:
        subprocess.run(["git", "-C", "/repo", "checkout", "--", "."], check=True)
    caught = [p for p, rc, _ in res if rc == 1]
    broken = [p for p, rc, _ in res if rc == 2]
    for p, rc, rules in res:
        if rc != 0:
            print("%s exit=%d" % (p, rc))
            for r in rules[:6]:
                print("    " + r)
    print("SUMMARY %s: caught by %s; analysis-error in %s" % (Path(a.dir).name, caught or "NONE", broken or "none"))


if __name__ == "__main__":
    main()
