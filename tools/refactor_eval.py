#!/venv/bin/python
"""Run every check against each behaviour-preserving refactoring under /tmp/wt/R*/_refactor (or /verif/refactors/*):
any VIOLATION is a false alarm. usage: tools/refactor_eval.py [dir ...] [--props C01,C02]"""
import subprocess
import sys
from pathlib import Path

VERIF = Path(__file__).resolve().parents[1]
args = [a for a in sys.argv[1:] if not a.startswith("--")]
props = [a.split("=", 1)[1] for a in sys.argv[1:] if a.startswith("--props=")]
dirs = [Path(a) for a in args] or sorted(p for p in (VERIF / "refactors").glob("*") if (p / "patch.diff").exists())
tot_v = tot_e = 0
for d in dirs:
    cmd = [sys.executable, str(VERIF / "tools" / "seeded_eval.py"), str(d)] + (["--props", props[0]] if props else [])
    out = subprocess.run(cmd, capture_output=True, text=True).stdout
    v, e = [], []
    cur = None
    for line in out.splitlines():
        if line.startswith("C") and "exit=" in line:
            cur = line.split()[0]
            (v if "exit=1" in line else e).append(cur)
        elif line.startswith("    ") and cur in v:
            print("   [%s] %s: %s" % (d.parent.name if d.name == "_refactor" else d.name, cur, line.strip()[:260]))
    print("%-12s false alarms: %-40s not understood: %s" % (d.parent.name if d.name == "_refactor" else d.name, v or "-", e or "-"))
    tot_v += len(v)
    tot_e += len(e)
print("TOTAL false alarms %d, not understood %d" % (tot_v, tot_e))
