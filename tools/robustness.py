#!/venv/bin/python
"""Behaviour-preserving whole-package rewrites: every check must give the same verdict as on /repo.

usage: tools/robustness.py [--only T1,T2] [--props C05,C16] [--keep]

Builds, per transformation, a scratch copy of /repo's package in which EVERY applicable site of the package has been
rewritten (the .py files are re-generated with ast.unparse), runs every claimed check on it with --repo, and reports
  VIOLATION  - a false alarm of the checker (must be fixed),
  exit 2     - the checker no longer understands the code (tolerated, listed),
  ok         - same verdict as on /repo.
The scratch copies live under a mkdtemp directory and are removed afterwards.

Transformations
  eqswap     a == b  ->  b == a ; a != b -> b != a
  cmpflip    a < b   ->  b > a  (and <=, >, >=), single-operator comparisons only
  ifinvert   if c: A else: B  ->  if not c: B else: A   (plain if/else, no elif on either side)
  elifnest   if a: A elif b: B else: C -> if a: A else: (if b: B else: C) is what the AST already is; instead the reverse
             view is produced: a trailing `else: if` is left, but `if a: return x` + fall-through code is not touched
  notcmp     not (a == b) <-> a != b ; not (a in b) <-> a not in b ; a is not None <-> not (a is None)
  rename     every function-local variable v (not a parameter, not global/nonlocal) is renamed v_ consistently
  augexpand  n += k -> n = n + k   for integer/float literal k only (immutable numbers)
  passpad    a `pass`-like no-op (an unused string expression) is inserted as first statement of every loop and if body
"""
import argparse
import ast
import json
import shutil
import subprocess
import sys
import tempfile
from concurrent.futures import ThreadPoolExecutor
from pathlib import Path

VERIF = Path(__file__).resolve().parents[1]


sys.path.insert(0, str(VERIF / "sa"))
from osaca_sa.rewrites import TRANSFORMS  # noqa: E402


def build(root, name):
    dst = Path(root) / name
    shutil.copytree("/repo/osaca", dst / "osaca", ignore=shutil.ignore_patterns("*.pickle", "__pycache__"), symlinks=True)
    for extra in ("README.rst", "setup.py", "docs"):
        p = Path("/repo") / extra
        if p.exists() and not (dst / extra).exists():
            (dst / extra).symlink_to(p)
    for p in (dst / "osaca").rglob("*.py"):
        if "/data/" in str(p):
            continue
        tree = ast.parse(p.read_text())
        tree = TRANSFORMS[name]().visit(tree)
        ast.fix_missing_locations(tree)
        text = ast.unparse(tree) + "\n"
        compile(text, str(p), "exec")
        p.write_text(text)
    return dst


def run_check(prop, repo):
    r = subprocess.run([str(VERIF / "check"), prop, "--no-evidence", "--repo", str(repo)], capture_output=True, text=True, cwd=VERIF)
    lines = r.stdout.splitlines()
    det = []
    for i, l in enumerate(lines):
        if l.startswith("VIOLATION"):
            det.append(" | ".join(x.strip()[:170] for x in lines[i + 1:i + 4]))
        if l.startswith("ANALYSIS-ERROR"):
            det.append(l[:260])
    return prop, r.returncode, det


def main():
    ap = argparse.ArgumentParser()
    ap.add_argument("--only", default=None)
    ap.add_argument("--props", default=None)
    ap.add_argument("--keep", action="store_true")
    a = ap.parse_args()
    m = json.loads((VERIF / "MANIFEST.json").read_text())
    props = a.props.split(",") if a.props else [c["property_id"] for c in m["checks"]]
    names = a.only.split(",") if a.only else list(TRANSFORMS)
    scratch = tempfile.mkdtemp(prefix="osaca_rob_")
    bad = 0
    try:
        for name in names:
            root = build(scratch, name)
            with ThreadPoolExecutor(max_workers=8) as ex:
                res = list(ex.map(lambda p: run_check(p, root), props))
            v = [(p, d) for p, rc, d in res if rc == 1]
            e = [(p, d) for p, rc, d in res if rc == 2]
            print("== %-10s violations: %s   analysis-errors: %s" % (name, [p for p, _ in v] or "none", [p for p, _ in e] or "none"))
            for p, d in v + e:
                for x in d[:4]:
                    print("     %s: %s" % (p, x))
            bad += len(v)
            if not a.keep:
                shutil.rmtree(root, ignore_errors=True)
    finally:
        if not a.keep:
            shutil.rmtree(scratch, ignore_errors=True)
        else:
            print("kept:", scratch)
    sys.exit(1 if bad else 0)


if __name__ == "__main__":
    main()
