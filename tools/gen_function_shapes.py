#!/venv/bin/python
"""Regenerates spec/function_shapes.json from /repo (deliberately, like known_symbols.json)."""
import json, os, sys
sys.path.insert(0, '/verif/sa')
os.environ["OSACA_SA_NO_INLINE"] = "1"
os.environ["OSACA_SA_NO_SHAPES"] = "1"
from osaca_sa.srcmodel import Repo
from osaca_sa import shapes
r = Repo('/repo')
out = {}
for q, f in sorted(r.funcs.items()):
    if f.file.startswith("osaca/data/"):
        continue
    h, order = shapes.shape(f.node)
    if order:
        out[q] = {"digest": h, "locals": order, "sigs": shapes.signatures(f.node)}
json.dump(out, open('/verif/spec/function_shapes.json', 'w'), indent=0, sort_keys=True)
print(len(out), "functions")
