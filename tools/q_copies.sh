#!/bin/sh
# usage: tools/q_copies.sh [Qxx ...]  - scratch copies /tmp/rob/q/Qxx of /repo's package with the round-6 refactoring of /tmp/wt/Qxx applied
mkdir -p /tmp/rob/q
L="$@"; [ -z "$L" ] && L=$(ls -d /tmp/wt/Q?? | xargs -n1 basename)
for id in $L; do
  P=/tmp/wt/$id/_refactor/patch.diff; [ -f $P ] || P=/verif/refactors/r6-C${id#Q}/patch.diff
  [ -f $P ] || { echo "no patch for $id"; continue; }
  D=/tmp/rob/q/$id; rm -rf $D; mkdir -p $D
  cp -r /repo/osaca $D/osaca; cp /repo/README.rst $D/; find $D -name "*.pickle" -delete; find $D -name __pycache__ -type d -exec rm -rf {} + 2>/dev/null
  (cd $D && patch -p1 -s < $P) || echo "PATCH FAILED $id"
done
