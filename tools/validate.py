#!/usr/bin/env python3
"""Validate MANIFEST.json and every evidence file against the schemas (run with python3-vt)."""
import json, sys, glob
import jsonschema
m = json.load(open("/verif/MANIFEST.json"))
jsonschema.validate(m, json.load(open("/root/.vp/MANIFEST.schema.json")))
es = json.load(open("/root/.vp/EVIDENCE.schema.json"))
bad = 0
for c in m["checks"]:
    try:
        jsonschema.validate(json.load(open(c["evidence_file"])), es)
    except Exception as e:
        bad += 1
        print("EVIDENCE INVALID/MISSING", c["property_id"], str(e)[:200])
print("manifest ok; %d checks; %d bad evidence" % (len(m["checks"]), bad))
sys.exit(1 if bad else 0)
