#!/bin/sh
# rebuilds the scratch copies /tmp/rob/ref/Rxx (package of /repo with refactoring r3-Cxx applied) used by tools/ref_quick.sh
rm -rf /tmp/rob/ref; mkdir -p /tmp/rob/ref
for d in /verif/refactors/*; do
  n=$(basename $d); id=R${n#r3-C}; [ "${n#r5-C}" != "$n" ] && id=Q${n#r5-C}
  D=/tmp/rob/ref/$id; mkdir -p $D
  cp -r /repo/osaca $D/osaca; cp /repo/README.rst $D/; find $D -name "*.pickle" -delete; find $D -name __pycache__ -type d -exec rm -rf {} + 2>/dev/null
  (cd $D && patch -p1 -s < $d/patch.diff) || echo "PATCH FAILED $n"
done
ls /tmp/rob/ref | tr '\n' ' '
