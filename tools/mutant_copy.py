#!/venv/bin/python
"""usage: tools/mutant_copy.py <Cxx> <mutant id> [dest]  - scratch copy of /repo's package with one mutant applied (for debugging)"""
import shutil, sys
sys.path.insert(0, '/verif/sa')
from osaca_sa.mutants import MUTANTS
prop, mid = sys.argv[1], sys.argv[2]
dst = sys.argv[3] if len(sys.argv) > 3 else '/tmp/rob/m1'
m = [x for x in MUTANTS[prop] if x.id == mid][0]
shutil.rmtree(dst, ignore_errors=True)
shutil.copytree('/repo/osaca', dst + '/osaca', ignore=shutil.ignore_patterns('*.pickle', '__pycache__'))
shutil.copy('/repo/README.rst', dst)
p = dst + '/' + m.file
s = open(p).read()
assert m.old in s, 'stale'
open(p, 'w').write(s.replace(m.old, m.new, 1))
print(dst)
