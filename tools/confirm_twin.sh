#!/bin/sh
# Confirm a "correct twin" in its scratch worktree /tmp/wt/W<seed>: digest of _twin/demo.py with the repaired code and on the
# original code, the stable tests, and the seeded change's own demo (must pass on the twin). Writes _twin/confirm.json
ID="W$1"
WT="/tmp/wt/$ID"
cd "$WT" || exit 2
[ -e _refactor ] || ln -s _twin _refactor
/verif/tools/confirm_refactor.sh "$ID" > /dev/null 2>&1
export HOME="$WT/_home"
timeout 1800 /venv/bin/python _twin/colleague_demo.py > _twin/colleague_on_twin.log 2>&1; CE=$?
/venv/bin/python - "$CE" <<'PY'
import json, sys
c = json.load(open("_twin/confirm.json"))
c["colleague_demo_exit_on_twin"] = int(sys.argv[1])
json.dump(c, open("_twin/confirm.json", "w"))
print(json.dumps(c))
PY
