#!/venv/bin/python
"""Copy a confirmed "correct twin" (the repaired, behaviour-preserving variant of a seeded change that keeps the seeded change's
restructuring) from its scratch worktree into /verif/refactors/t8-<seed>/ . The thorough tier replays every patch under
refactors/ and must raise no violation on it.
usage: tools/collect_twin.py <seed name, e.g. s7-C01>"""
import json, shutil, sys
from pathlib import Path
VERIF = Path(__file__).resolve().parents[1]
seed = sys.argv[1]
src = Path("/tmp/wt") / ("W" + seed) / "_twin"
conf = json.loads((src / "confirm.json").read_text())
dw, do = conf["digest_with_change"], conf["digest_without_change"]
if not (dw == do and len(dw) >= 32 and conf["stable_tests_passing_with_change"] == 42 and conf.get("colleague_demo_exit_on_twin") == 0):
    sys.exit("not confirmed: %s" % conf)
meta = json.loads((src / "meta.json").read_text())
dst = VERIF / "refactors" / ("t8-" + seed)
dst.mkdir(parents=True, exist_ok=True)
shutil.copy(src / "patch.diff", dst / "patch.diff")
shutil.copy(src / "demo.py", dst / "demo.py")
meta["origin"] = ("independent sub-agent (round 8: 'correct twin'): given the property text, a scratch worktree with the seeded change "
                  "%s applied and that change's failing demo; asked to repair the defect while keeping the restructuring" % seed)
meta["twin_of"] = seed
meta["confirmed_in_scratch_worktree"] = {"ran": "tools/confirm_twin.sh %s" % seed, "digest_repaired": dw, "digest_original": do,
                                         "stable_tests_passing_with_change": "42/42", "seeded_demo_exit_on_twin": 0}
(dst / "meta.json").write_text(json.dumps(meta, indent=1) + "\n")
print("t8-" + seed, "stored")
