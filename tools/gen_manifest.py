#!/venv/bin/python
"""Regenerate /verif/MANIFEST.json from the rule modules' own metadata and validate it."""
import importlib
import json
import sys
from pathlib import Path

VERIF = Path(__file__).resolve().parents[1]
sys.path.insert(0, str(VERIF / "sa"))

NOT_APPLICABLE = {
    "C14": "Rotation invariance is a metamorphic relation between two runs on two different "
           "inputs; static analysis sees one program. Every shape premise it has (all lines are "
           "search roots, copy test consistent with a strictly separating offset, rotation-"
           "canonical de-duplication key) is already an obligation of C05/C16; claiming it again "
           "would only re-label those rules (DESIGN.md section 6).",
}

props = [json.loads(l) for l in (VERIF / "properties.jsonl").read_text().splitlines() if l.strip()]
checks = []
na = []
for p in props:
    pid = p["id"]
    if pid in NOT_APPLICABLE:
        na.append({"property_id": pid, "reason": NOT_APPLICABLE[pid]})
        continue
    try:
        mod = importlib.import_module("osaca_sa.rules.%s" % pid.lower())
    except ModuleNotFoundError:
        na.append({"property_id": pid, "reason": "no static rule implemented (yet) for this "
                   "property; it is not claimed"})
        continue
    checks.append({
        "property_id": pid,
        "quick_cmd": "./check %s --tier quick" % pid,
        "thorough_cmd": "./check %s --tier thorough" % pid,
        "evidence_file": "/verif/evidence/%s.json" % pid,
        "replay_cmd_template": "./check %s --replay {path}" % pid,
        "engine": "osaca_sa",
        "level_claimed": {
            "category": "other",
            "text": getattr(mod, "LEVEL_TEXT", None) or (
                "static analysis: structural necessary conditions of the property, decided on "
                "/repo's current source on every run - " + mod.EXPLANATION[:400]),
            "design_ref": "DESIGN.md section 5, %s" % pid,
        },
        "level_note": "Not decided: %s Trusted base: CPython ast, ruamel.yaml safe loader (data "
                      "only), networkx dominators, the reference tables under /verif/spec, the "
                      "analyser itself. Assumes: %s" % (mod.NOT_DECIDED, "; ".join(mod.ASSUMPTIONS)),
        "technique": getattr(mod, "TECHNIQUE", "static analysis: AST pattern rules, CFG dominance, "
                             "reaching definitions"),
    })

manifest = {
    "version": 1,
    "setup_cmd": "/venv/bin/python -c \"import ast, networkx, ruamel.yaml; print('ok')\" && chmod +x "
                 "/verif/check /verif/tools/*.sh",
    "hooks": {
        "guard": "OSACA_VERIF",
        "enable": "none needed: the checks are static (they parse /repo's working tree, never "
                  "import or run it); no hook exists in /repo",
        "baseline_off_cmd": "/verif/tools/baseline.sh",
        "source_commits": [],
        "add_only": True,
    },
    "engines": [{
        "name": "osaca_sa",
        "path": "/verif/sa/osaca_sa",
        "serves_properties": [c["property_id"] for c in checks],
        "kind_free_text": "repository-specific static analyser: AST pattern matcher, statement "
                          "CFG with dominators, reaching definitions, field def/use, literal-table "
                          "and YAML data lint; self-test by source mutation in the thorough tier",
    }],
    "checks": checks,
    "not_applicable": na,
    "notes": "Technique family: static analysis only. Every check reads /repo's current working "
             "tree (Python sources via ast, YAML as data, README as text) on every run. exit 2 + "
             "ANALYSIS-ERROR means the analysis could not give a verdict (anchor vanished).",
}
(VERIF / "MANIFEST.json").write_text(json.dumps(manifest, indent=1) + "\n")
try:
    import jsonschema  # only in the tooling venv

    jsonschema.validate(manifest, json.load(open("/root/.vp/MANIFEST.schema.json")))
    print("MANIFEST.json valid")
except ImportError:
    print("MANIFEST.json written (jsonschema not importable here; validate with python3-vt)")
print("claimed:", [c["property_id"] for c in checks])
print("not applicable:", [n["property_id"] for n in na])
