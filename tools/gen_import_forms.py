#!/venv/bin/python
"""Regenerates spec/import_forms.json from /repo: per module file, local name -> fully qualified origin of every import
from outside the package (deliberately, like known_symbols.json)."""
import ast, json, sys
from pathlib import Path
sys.path.insert(0, '/verif/sa')
from osaca_sa.imports import bindings
out = {}
root = Path('/repo')
for p in sorted((root / 'osaca').rglob('*.py')):
    rel = str(p.relative_to(root))
    if rel.startswith('osaca/data/'):
        continue
    out[rel] = bindings(ast.parse(p.read_text()))
json.dump(out, open('/verif/spec/import_forms.json', 'w'), indent=1, sort_keys=True)
print(len(out), "modules")
