# Decision tables of the operand matcher (property C07), written as flat Python decision lists.
#
# This file is a SPECIFICATION: it is parsed (ast) and turned into a boolean function of its atoms
# (osaca_sa/boolfn.py); it is never imported or executed. Each function below is compared with the
# MachineModel method of the same name by BDD equality, parameters matched by position. Calls to other
# predicates are atoms (their arguments are part of the atom, so an argument swap is a disagreement).
# Vocabulary of the property: an entry operand `e` (first parameter) agrees in kind with a parsed
# operand `o` (second parameter).
#
# Confirmed against the code of the pinned tree by reading; quirks of that code that the property
# does not forbid are kept and marked QUIRK.


def _check_operands(self, e, o):
    # the register wildcard produced by substitute_mem_address matches exactly register entries
    if isinstance(o, dict) and self.WILDCARD in o:
        return isinstance(e, RegisterOperand)
    if self._data["isa"].lower() == "aarch64":
        return self._check_AArch64_operands(e, o)
    if self._data["isa"].lower() == "x86":
        return self._check_x86_operands(e, o)
    return False


def _check_x86_operands(self, e, o):
    if isinstance(o, RegisterOperand):
        return isinstance(e, RegisterOperand) and self._is_x86_reg_type(e, o, consider_masking=False)
    if isinstance(o, MemoryOperand):
        return isinstance(e, MemoryOperand) and self._is_x86_mem_type(e, o)
    if isinstance(o, ImmediateOperand):
        return isinstance(e, ImmediateOperand) and e.imd_type == "int"
    if isinstance(o, IdentifierOperand):
        return isinstance(e, IdentifierOperand)
    # QUIRK: anything else (raw dict operands of db entries) is compared by _compare_db_entries
    return self._compare_db_entries(e, o)


def _check_AArch64_operands(self, e, o):
    if isinstance(o, RegisterOperand):
        return isinstance(e, RegisterOperand) and self._is_AArch64_reg_type(e, o)
    if isinstance(o, MemoryOperand):
        return isinstance(e, MemoryOperand) and self._is_AArch64_mem_type(e, o)
    # immediates: the entry's type decides
    if isinstance(e, ImmediateOperand) and e.imd_type == self.WILDCARD:
        return isinstance(o, ImmediateOperand) and o.value is not None
    if isinstance(e, ImmediateOperand) and e.imd_type == "int":
        return isinstance(o, ImmediateOperand) and o.imd_type == "int" and o.value is not None
    if isinstance(e, ImmediateOperand) and e.imd_type == "float":
        return isinstance(o, ImmediateOperand) and o.imd_type == "float" and o.value is not None
    if isinstance(e, ImmediateOperand) and e.imd_type == "double":
        return isinstance(o, ImmediateOperand) and o.imd_type == "double" and o.value is not None
    # labels / identifiers (an immediate carrying an identifier counts as one)
    if isinstance(o, IdentifierOperand) or (isinstance(o, ImmediateOperand) and o.identifier is not None):
        return isinstance(e, IdentifierOperand)
    if isinstance(o, PrefetchOperand):
        return isinstance(e, PrefetchOperand)
    if isinstance(o, ConditionOperand) and isinstance(e, ConditionOperand):
        return e.ccode == self.WILDCARD or e.ccode == o.ccode
    return False


def _is_AArch64_reg_type(self, e, o):
    # shape rule: if the parsed register has a shape, the entry must have one that is equal or a wildcard
    if o.prefix == self.WILDCARD or e.prefix == self.WILDCARD:
        if o.shape is not None:
            return e.shape is not None and (o.shape == e.shape or self.WILDCARD in o.shape + e.shape)
        return True
    if o.prefix != e.prefix:
        return False
    if o.shape is not None:
        return e.shape is not None and (o.shape == e.shape or self.WILDCARD in o.shape + e.shape)
    if o.lanes is not None:
        return e.lanes is not None and (o.lanes == e.lanes or self.WILDCARD in o.lanes + e.lanes)
    return True


def _is_x86_reg_type(self, e, o, consider_masking=False):
    # `e` is an entry register or, for memory base/index patterns, a plain string / None
    if o is None:
        return e is None
    if isinstance(o, str):
        return False
    if (e.name if isinstance(e, RegisterOperand) else e) is None and o.name is None:
        return True
    if (e.name if isinstance(e, RegisterOperand) else e) == self.WILDCARD or o.name == self.WILDCARD:
        return True
    if ParserX86ATT().is_vector_register(o):
        if o.name.rstrip(string.digits).lower() != (e.name if isinstance(e, RegisterOperand) else e):
            return False
        if not consider_masking:
            return True
        # AVX-512 masking / zeroing (only with consider_masking)
        if o.mask is not None or e.mask is not None:
            mask_ok = (
                (o.mask is not None and o.mask.rstrip(string.digits).lower() == e.mask)
                or o.mask == self.WILDCARD
                or e.mask == self.WILDCARD
            )
            if bool(o.zeroing) ^ bool("zeroing" in e):
                zero_ok = e.zeroing == self.WILDCARD or o.zeroing == self.WILDCARD
            else:
                zero_ok = True
            return mask_ok and zero_ok
        return True
    if o.name.rstrip(string.digits).lower() == (e.name if isinstance(e, RegisterOperand) else e):
        return True
    return (e.name if isinstance(e, RegisterOperand) else e) == "gpr"


def _is_AArch64_mem_type(self, e, o):
    base_ok = (
        (o.base is None and e.base is None)
        or e.base == self.WILDCARD
        or (isinstance(o.base, RegisterOperand) and o.base.prefix == e.base)
    )
    offset_ok = (
        o.offset == e.offset
        or e.offset == self.WILDCARD
        or (o.offset is not None and isinstance(o.offset, IdentifierOperand) and isinstance(e.offset, IdentifierOperand))
        or (o.offset is not None and isinstance(o.offset, ImmediateOperand) and e.offset == "imd")
    )
    index_ok = (
        o.index == e.index
        or e.index == self.WILDCARD
        or (o.index is not None and o.index.prefix is not None and o.index.prefix == e.index)
    )
    scale_ok = o.scale == e.scale or e.scale == self.WILDCARD or (o.scale != 1 and e.scale != 1)
    pre_ok = e.pre_indexed == self.WILDCARD or o.pre_indexed == e.pre_indexed
    post_ok = (
        e.post_indexed == self.WILDCARD
        or o.post_indexed == e.post_indexed
        or (isinstance(o.post_indexed, dict) and e.post_indexed)
    )
    return base_ok and offset_ok and index_ok and scale_ok and pre_ok and post_ok


def _is_x86_mem_type(self, e, o):
    base_ok = (
        (o.base is None and e.base is None)
        or e.base == self.WILDCARD
        or self._is_x86_reg_type(e.base, o.base)
    )
    offset_ok = (
        o.offset == e.offset
        or e.offset == self.WILDCARD
        or (o.offset is not None and isinstance(o.offset, IdentifierOperand) and isinstance(e.offset, IdentifierOperand))
        or (
            o.offset is not None
            and isinstance(o.offset, ImmediateOperand)
            # QUIRK: the second disjunct compares an int with the string "0" (never true for parsed code)
            and (e.offset == "imd" or (e.offset is None and o.offset.value == "0"))
        )
        or (isinstance(o.offset, IdentifierOperand) and e.offset == "id")
    )
    index_ok = (
        o.index == e.index
        or e.index == self.WILDCARD
        or (o.index is not None and self._is_x86_reg_type(e.index, o.index))
    )
    scale_ok = o.scale == e.scale or e.scale == self.WILDCARD or (o.scale != 1 and e.scale != 1)
    return base_ok and offset_ok and index_ok and scale_ok
